"""Stub conformance: the same toy programs on real threading / concurrent.futures
and on the simulated primitives must give the same (schedule-independent) results.

    /venv/bin/python tests/conformance.py      exit 0 = conforming
"""

from __future__ import annotations

import concurrent.futures as real_cf
import random
import sys
import threading as real_threading
import types

sys.path.insert(0, "/verif")
from iosim import simthreading as st  # noqa: E402
from iosim.sched import Scheduler, SimAbort  # noqa: E402


def prog_locked_counter(th, cf):
    lock = th.Lock()
    state = {"n": 0}

    def work(k):
        for _ in range(k):
            with lock:
                state["n"] += 1
        return k

    with cf.futures.ThreadPoolExecutor(max_workers=3) as ex:
        fs = [ex.submit(work, k) for k in (1, 2, 3, 4)]
        res = sorted(f.result() for f in fs)
    return res, state["n"]


def prog_condition_budget(th, cf):
    cond = th.Condition()
    st_ = {"in": 0, "max": 0, "done": 0}

    def work(i):
        with cond:
            cond.wait_for(lambda: st_["in"] < 2)
            st_["in"] += 1
            st_["max"] = max(st_["max"], st_["in"])
        with cond:
            st_["in"] -= 1
            st_["done"] += 1
            cond.notify_all()

    ex = cf.futures.ThreadPoolExecutor(max_workers=4)
    fs = [ex.submit(work, i) for i in range(7)]
    for f in cf.futures.as_completed(fs):
        f.result()
    ex.shutdown(wait=True)
    return st_["done"], st_["max"] <= 2, st_["in"]


def prog_exception_and_cancel(th, cf):
    gate = th.Lock()
    gate.acquire()
    out = []

    def blocked():
        with gate:
            return "b"

    def boom():
        raise KeyError("x")

    ex = cf.futures.ThreadPoolExecutor(max_workers=1)
    f1 = ex.submit(blocked)
    f2 = ex.submit(boom)
    f3 = ex.submit(lambda: 3)
    gate.release()
    try:
        for f in cf.futures.as_completed([f1, f2, f3]):
            out.append(f.result())
    except BaseException as e:  # noqa: BLE001
        out.append(type(e).__name__)
        ex.shutdown(wait=True, cancel_futures=True)
    else:
        ex.shutdown(wait=True)
    states = (f1.done(), f2.done(), f3.done())
    try:
        ex.submit(lambda: 1)
        after = "accepted"
    except RuntimeError:
        after = "RuntimeError"
    return out[0], "KeyError" in out, states, after, f3.cancelled() or f3.result() == 3


def prog_misuse(th, cf):
    res = []
    cond = th.Condition()
    try:
        cond.notify()
    except RuntimeError:
        res.append("notify-unlocked")
    try:
        cond.wait(0)
    except RuntimeError:
        res.append("wait-unlocked")
    lock = th.Lock()
    try:
        lock.release()
    except RuntimeError:
        res.append("release-unlocked")
    res.append(lock.acquire(False))
    res.append(lock.acquire(False))
    lock.release()
    rl = th.RLock()
    rl.acquire()
    rl.acquire()
    rl.release()
    rl.release()
    res.append("rlock-ok")
    return res


def prog_result_reraises(th, cf):
    with cf.futures.ThreadPoolExecutor(max_workers=2) as ex:
        f = ex.submit(lambda: (_ for _ in ()).throw(ValueError("v")))
        g = ex.submit(lambda: 5)
        try:
            f.result()
            a = "no"
        except ValueError:
            a = "ValueError"
        return a, g.result(), type(f.exception()).__name__, g.exception()


PROGRAMS = [prog_locked_counter, prog_condition_budget, prog_exception_and_cancel, prog_misuse, prog_result_reraises]


def run_real(prog):
    th = types.SimpleNamespace(Lock=real_threading.Lock, RLock=real_threading.RLock, Condition=real_threading.Condition)
    cfns = types.SimpleNamespace(futures=real_cf)
    return prog(th, cfns)


def run_sim(prog, seed):
    s = Scheduler(random.Random(seed), stickiness=[0.0, 0.5, 0.9][seed % 3])
    st.install_sched_extras(s, spurious_rate=[0.0, 0.2][seed % 2], rng_faults=random.Random(seed + 1))
    s.attach_main()
    th, cf = st.make_namespaces(s)
    try:
        out = prog(th, cf)
    except SimAbort:
        out = ("ABORT", s.failure)
    try:
        s.drain(lambda: st.release_abandoned_executors(s))
    except SimAbort:
        out = ("ABORT", s.failure)
    s.close()
    return out


def fs_conformance() -> int:
    """The file-system stand-ins must return what the real functions return (spelling of paths included): a stand-in
    that is more forgiving than the real function hides defects (the mkdtemp one did until round 13)."""
    import os
    import re
    import shutil
    import tempfile

    from iosim import fsseam

    bad = 0
    root = os.path.realpath(tempfile.mkdtemp(prefix="verif-conf-", dir="/dev/shm" if os.path.isdir("/dev/shm") else None))
    try:
        os.makedirs(os.path.join(root, "m"))
        os.makedirs(os.path.join(root, "out", "deep"))
        os.symlink(os.path.join("..", "out", "deep"), os.path.join(root, "m", "lnk"))
        seam = fsseam.FsSeam(root)
        sim_tempfile = fsseam.make_tempfile(seam)
        for d in ("m", "m/lnk/..", "m/./lnk", "m//"):
            dir_ = os.path.join(root, d)
            real = tempfile.mkdtemp(prefix=".x.", dir=dir_)
            sim = sim_tempfile.mkdtemp(prefix=".x.", dir=dir_)
            shape = lambda p_: (os.path.dirname(p_), os.path.isdir(p_), re.sub(r"\.x\..*", ".x.*", os.path.basename(p_)))  # noqa: E731
            ok = shape(real) == shape(sim)
            print(f"fs mkdtemp(dir={d!r}): real={shape(real)} sim={shape(sim)} -> {'OK' if ok else 'MISMATCH'}")
            bad += 0 if ok else 1
    finally:
        shutil.rmtree(root, ignore_errors=True)
    return bad


def main() -> int:
    bad = fs_conformance()
    for prog in PROGRAMS:
        reals = {repr(run_real(prog)) for _ in range(20)}
        sims = {repr(run_sim(prog, seed)) for seed in range(200)}
        ok = sims <= reals and len(reals) == 1
        print(f"{prog.__name__}: real={sorted(reals)[:2]} sim_distinct={len(sims)} -> {'OK' if ok else 'MISMATCH'}")
        if not ok:
            bad += 1
            print("   sim-only outcomes:", sorted(sims - reals)[:3])
    return 1 if bad else 0


if __name__ == "__main__":
    sys.exit(main())
