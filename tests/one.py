import sys, json, time, importlib
sys.path.insert(0,'/verif')
from simcore.prng import H
modname, n = sys.argv[1], int(sys.argv[2])
start = int(sys.argv[3]) if len(sys.argv)>3 else 0
mod = importlib.import_module(modname)
import collections
st = collections.Counter(); t0=time.time(); viol=0
for i in range(start, start+n):
    seed = H(0, mod.PROPERTY, i)
    case = mod.gen_case(seed, 'quick', i)
    res = mod.run_case(case)
    st.update(res['stats'])
    if res.get('error'): print('ERR', i, res['error']); break
    vs = res.get('violations') or ([res['violation']] if res.get('violation') else [])
    from simcore import findings as _f
    _k = _f.load()
    vs = [v for v in vs if _f.match(_k, mod.PROPERTY, mod.finding_key(res.get('case', case), v) if hasattr(mod, 'finding_key') else str(v.get('clause'))) is None]
    if vs:
        viol+=1
        print('VIOL', i, json.dumps(vs[0], default=str)[:1500])
        if viol>=int(sys.argv[4]) if len(sys.argv)>4 else viol>=3: break
print(n, 'runs', time.time()-t0, 's')
for k,v in sorted(st.items()): print(' ',k,v)
