import random, sys
sys.path.insert(0, '/verif')
from iosim.sched import Scheduler, SimAbort
from iosim import simthreading as st

def run(seed, prog, **kw):
    s = Scheduler(random.Random(seed), **kw)
    st.install_sched_extras(s, spurious_rate=0.1, rng_faults=random.Random(seed+1))
    s.attach_main()
    th, cf = st.make_namespaces(s)
    out = None; err = None
    try:
        out = prog(th, cf, s)
    except SimAbort:
        err = s.failure
    except Exception as e:
        err = ('exc', type(e).__name__, str(e))
    try:
        s.drain(lambda: st.release_abandoned_executors(s))
    except SimAbort:
        err = s.failure
    s.close()
    return out, err, s

def prog_budget(th, cf, s):
    cond = th.Condition(); state = {'in': 0, 'max': 0}
    def work(i):
        with cond:
            cond.wait_for(lambda: state['in'] < 2)
            state['in'] += 1
            state['max'] = max(state['max'], state['in'])
        s.yield_point('work')
        with cond:
            state['in'] -= 1
            cond.notify_all()
        return i
    ex = cf.futures.ThreadPoolExecutor(max_workers=4)
    fs = [ex.submit(work, i) for i in range(8)]
    res = [f.result() for f in cf.futures.as_completed(fs)]
    ex.shutdown(wait=True)
    return sorted(res), state['max']

def prog_deadlock(th, cf, s):
    a = th.Lock(); b = th.Lock()
    def t1():
        with a:
            s.yield_point('x')
            with b: pass
    def t2():
        with b:
            s.yield_point('y')
            with a: pass
    with cf.futures.ThreadPoolExecutor(max_workers=2) as ex:
        f1 = ex.submit(t1); f2 = ex.submit(t2)
        f1.result(); f2.result()
    return 'ok'

def prog_lost_wakeup(th, cf, s):
    # notify(1) with two waiters needing wake-up -> deadlock in some schedules
    cond = th.Condition(); st_ = {'n': 0}
    def waiter():
        with cond:
            cond.wait_for(lambda: st_['n'] > 0)
    def setter():
        with cond:
            st_['n'] = 1
            cond.notify(1)
    with cf.futures.ThreadPoolExecutor(max_workers=3) as ex:
        fs = [ex.submit(waiter), ex.submit(waiter), ex.submit(setter)]
        for f in fs: f.result()
    return 'ok'

if __name__ == '__main__':
    import collections
    traces = set(); 
    for seed in range(200):
        out, err, s = run(seed, prog_budget)
        assert err is None, err
        assert out == (list(range(8)), 2) or out[1] <= 2, out
        out2, err2, s2 = run(seed, prog_budget)
        assert s.trace == s2.trace and s.events == s2.events, seed
        # replay by explicit choices
        out3, err3, s3 = run(seed, prog_budget, choices=s.trace, choices_only=True)
        assert s3.events == s.events, seed
        traces.add(tuple(s.trace))
    print('budget ok; distinct traces', len(traces), 'steps', s.steps, 'counters', dict(s.counters))
    dl = 0
    for seed in range(200):
        out, err, s = run(seed, prog_deadlock)
        if err: 
            assert err['clause'] == 'deadlock', err
            dl += 1
        else: assert out == 'ok'
    print('deadlock detected in', dl, 'of 200')
    lw = 0
    for seed in range(200):
        out, err, s = run(seed, prog_lost_wakeup)
        if err:
            assert err['clause'] == 'deadlock', err; lw += 1
    print('lost wakeup detected in', lw, 'of 200')
