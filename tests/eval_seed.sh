#!/bin/bash
# usage: eval_seed.sh <ID> [check-id] -- confirm an independently written breaking change and run the check against it
ID=$1; CHK=${2:-$1}; WT=${WTBASE:-/tmp/wt}/$ID
cd $WT || exit 9
echo "== patch matches worktree diff: $(diff <(git diff -- src) seeded/patch.diff >/dev/null && echo yes || echo NO)"
PYTHONPATH=$WT/src timeout 300 /venv/bin/python seeded/demo.py >/tmp/demo_$ID.out 2>&1; echo "== demo with change: exit $? ($(tail -1 /tmp/demo_$ID.out | cut -c1-100))"
git apply -R seeded/patch.diff; PYTHONPATH=$WT/src timeout 300 /venv/bin/python seeded/demo.py >/tmp/demo_$ID.out 2>&1; echo "== demo without change: exit $? ($(tail -1 /tmp/demo_$ID.out | cut -c1-100))"; git apply seeded/patch.diff
if [ "$3" != "notests" ]; then
echo "== suite: $(PYTHONPATH=$WT/src timeout 1200 /venv/bin/python -m pytest -q -p no:cacheprovider --continue-on-collection-errors src tests 2>&1 | tail -1 | sed 's/\x1b\[[0-9;]*m//g')"
fi
cd /verif
VERIF_REPO_SRC=$WT/src VERIF_WORKERS=${WORKERS:-8} timeout 900 /venv/bin/python ./check.py $CHK --tier quick 2>&1 | grep -v "^KNOWN" | cut -c1-400 | tail -5
echo "== check exit: ${PIPESTATUS[0]}"
