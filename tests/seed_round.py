"""Prepare round N of independently written breaking changes: one scratch worktree of /repo and one prompt per
claimed property, under /tmp/wtN (outside /repo and /verif).  Usage: python3 tests/seed_round.py N"""
import json, os, subprocess, sys

N = int(sys.argv[1])
base_dir = f"/tmp/wt{N}"
os.makedirs(f"{base_dir}/prompts", exist_ok=True)
props = {}
for l in open("/verif/properties.jsonl"):
    d = json.loads(l)
    props[d["id"]] = d
claimed = [c["property_id"] for c in json.load(open("/verif/MANIFEST.json"))["checks"]]
BASE = '''You are working in a scratch git worktree of the onnx/ir-py repository (a pure-Python in-memory ONNX IR library) at {WT}/{ID} - a copy of the repository at its current HEAD. Do NOT touch /repo or /verif in any way and do not read anything under /verif. Use /venv/bin/python. IMPORTANT: the installed onnx_ir package points at /repo/src, so to run anything against your worktree you MUST set PYTHONPATH={WT}/{ID}/src (verify with: PYTHONPATH={WT}/{ID}/src /venv/bin/python -c "import onnx_ir; print(onnx_ir.__file__)"). There is no network. Do NOT use `git stash` (the stash is shared between worktrees and other people are working in sibling worktrees); to test without your change use `git apply -R seeded/patch.diff` and then `git apply seeded/patch.diff`, or copy the tree.

Here is a semantic property that ir-py must satisfy (JSON record):

{PROP}

TASK: produce ONE realistic code change to non-test files under {WT}/{ID}/src/onnx_ir that BREAKS this property while
 (1) the package still imports and works for ordinary use, and
 (2) the existing test suite still passes. Run it with:
     cd {WT}/{ID} && PYTHONPATH={WT}/{ID}/src /venv/bin/python -m pytest -q -p no:cacheprovider --continue-on-collection-errors src tests 2>&1 | tail -3
     The unchanged tree gives exactly: 3664 passed, 1 failed (tests/public_api_test, onnxscript missing), 2 skipped, 1 collection error. Your change must leave these numbers as they are.
The change must look like a plausible regression a maintainer could introduce (a refactoring slip, an off-by-one, a wrong ordering of two statements, a missing finally, a dropped lock or check under a specific condition, a cache that is not invalidated, a condition that is slightly too narrow or too wide, state shared where it used to be copied...) and it must need something SPECIFIC to manifest - a particular thread interleaving, a crash or fault at a particular point, a multi-step sequence of operations, an unusual input, or two cooperating sites that each look fine alone - NOT something ordinary use would expose at once. Keep it small (a few lines). Read ALL the files the property is anchored in first, and prefer a site that is NOT the most obvious one.

Other people have ALREADY produced changes for the same property:
{PREV}
Yours must use a DIFFERENT mechanism in a different function from all of them, and ideally break a clause of the property statement, or go through a public entry point or configuration, that none of them touches.

DELIVERABLES, written into {WT}/{ID}/seeded/ :
 - patch.diff : output of `git -C {WT}/{ID} diff -- src` (the change only; it must apply with `git apply` on a clean checkout of this commit)
 - demo.py : a small standalone program, run as `PYTHONPATH=<tree>/src /venv/bin/python demo.py`, that exits 0 and prints PASS on the unchanged code and exits 1 and prints FAIL with your change applied, demonstrating the violation of THIS property through the public API (helper threads, fake tensors, monkeypatched os functions to inject faults etc. are fine). Verify BOTH directions yourself.
 - meta.json : {{"property": "{ID}", "summary": "...", "needs_to_manifest": "...", "files_changed": [...], "commands_run": [...], "side_findings_unchanged_code": [...]}}
   side_findings_unchanged_code: if, while reading, you notice that the UNCHANGED code already violates this property for some input, history or fault, list each with a minimal reproduction (a few lines of Python); otherwise an empty list. Do not spend more than a small part of your effort on this.
Leave the change applied in the worktree when you finish. In your final answer give a 5-line summary: what you changed, why the tests still pass, what is needed to see the violation.'''
EXTRA = """ADDITIONAL GUIDANCE FOR THIS ROUND: many one-site slips have been tried already. Prefer a change built from TWO cooperating edits that each look harmless alone, or one whose manifestation needs a non-default configuration (an option of the public API, an environment condition such as the interpreter's optimisation level, warning filters, resource limits or the current directory), an injected fault or crash at a particular point, a particular thread interleaving, an unusual but legal shape of input (memory layout, iterator kinds, subclasses, reference attributes), or state left behind by an EARLIER call in the same process. Pick a clause of the property statement that the earlier changes listed above leave untouched, and a file among the anchors that they have used least.

"""
if N >= 8:
    BASE = BASE.replace("DELIVERABLES, written into", EXTRA + "DELIVERABLES, written into", 1)
for pid in claimed:
    wt = f"{base_dir}/{pid}"
    if not os.path.isdir(wt):
        subprocess.run(["git", "-C", "/repo", "worktree", "add", "--detach", wt, "HEAD", "-q"], check=True)
    os.makedirs(f"{wt}/seeded", exist_ok=True)
    prev = []
    for r, suffix in enumerate(["", "-r2", "-r3", "-r4", "-r5", "-r6", "-r7", "-r8", "-r9", "-r10", "-r11", "-r12", "-r13", "-r14"]):
        f = f"/verif/seeded/{pid}{suffix}/agent_meta.json"
        if os.path.exists(f):
            prev.append(f' ({chr(97 + len(prev))}) "' + str(json.load(open(f)).get("summary", "")).replace('"', "'")[:450] + '"')
    open(f"{base_dir}/prompts/{pid}.txt", "w").write(BASE.format(WT=base_dir, ID=pid, PROP=json.dumps(props[pid], indent=1), PREV="\n".join(prev)))
print("prepared", len(claimed), "worktrees under", base_dir)
