#!/bin/bash
# usage: mutrun.sh <module> <nruns> <python-expr applied to source text of file> <file relative to src/onnx_ir>
# creates scratch copy of /repo/src, applies the mutation, runs tests/one.py against it, removes the copy.
set -e
MOD=$1; N=$2; FILE=$3; OLD=$4; NEW=$5
D=$(mktemp -d /dev/shm/mut.XXXXXX)
cp -r /repo/src $D/src
/venv/bin/python - "$D/src/onnx_ir/$FILE" "$OLD" "$NEW" <<'PY'
import sys
p, old, new = sys.argv[1:4]
s = open(p).read()
assert s.count(old) >= 1, f"pattern not found: {old!r}"
s = s.replace(old, new, 1)
open(p, 'w').write(s)
PY
cd /verif
PYTHONPATH=$D/src PYTHONHASHSEED=0 timeout 900 /venv/bin/python tests/one.py $MOD $N 0 1 2>&1 | grep -v "exceeds max_shard" | head -${6:-12}
rm -rf $D
