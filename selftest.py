#!/venv/bin/python
"""Determinism self-test: same seed => same event log.

    selftest.py determinism [--n 200] [--modules iosim.c09,...]

Every seed is run twice in-process, once more in a fresh interpreter under
another PYTHONHASHSEED, and once inside a 16-worker fork pool; all event-log
digests must agree.  Exit 0 = deterministic, 2 = divergence (harness error).
"""

from __future__ import annotations

import argparse
import concurrent.futures as cf
import importlib
import json
import multiprocessing as mp
import os
import subprocess
import sys

VERIF = os.path.dirname(os.path.abspath(__file__))
sys.path.insert(0, VERIF)
DEFAULT_MODULES = ["iosim.c09", "iosim.c08", "iosim.c07", "iosim.c10", "irsim.c01_c06:C01", "irsim.c01_c06:C06", "irsim.c11", "irsim.c15", "irsim.c13", "irsim.c20", "irsim.c19", "irsim.c14", "irsim.c03", "iosim.c17"]


def digests(mod_name: str, start: int, n: int, prop: str | None = None) -> list[str]:
    if prop:
        os.environ["VERIF_PROPERTY"] = prop
    from simcore.prng import H

    mod = importlib.import_module(mod_name)
    out = []
    for i in range(start, start + n):
        seed = H(0, mod.PROPERTY, i)
        case = mod.gen_case(seed, "quick", i)
        res = mod.run_case(case)
        if res.get("error"):
            out.append("ERR:" + res["error"][:80])
        else:
            v = res.get("violation") or (res.get("violations") or [None])[0]
            out.append(f"{res.get('event_digest')}|{(v or {}).get('clause')}")
    return out


def _pool_job(args):
    return digests(*args)


def main() -> int:
    ap = argparse.ArgumentParser()
    ap.add_argument("cmd", choices=["determinism", "digests"])
    ap.add_argument("--n", type=int, default=200)
    ap.add_argument("--modules", default=",".join(DEFAULT_MODULES))
    ap.add_argument("--start", type=int, default=0)
    args = ap.parse_args()
    mods = [m for m in args.modules.split(",") if m]
    if args.cmd == "digests":
        print(json.dumps({m: digests(m.split(":")[0], args.start, args.n, (m.split(":") + [None])[1]) for m in mods}))
        return 0
    bad = 0
    for m in mods:
        name, prop = (m.split(":") + [None])[:2]
        if prop and os.environ.get("VERIF_PROPERTY") != prop:
            # modules that serve two properties fix the property at import: one process per property
            env = dict(os.environ, VERIF_PROPERTY=prop, PYTHONHASHSEED="0")
            p = subprocess.run([sys.executable, os.path.abspath(__file__), "determinism", "--n", str(args.n), "--modules", m], env=env, timeout=3600)
            bad += 1 if p.returncode else 0
            continue
        a = digests(name, 0, args.n, prop)
        b = digests(name, 0, args.n, prop)
        # fresh interpreters under two hash seeds
        outs = []
        for hs in ("0", "12345"):
            env = dict(os.environ, PYTHONHASHSEED=hs)
            if prop:
                env["VERIF_PROPERTY"] = prop
            p = subprocess.run([sys.executable, os.path.abspath(__file__), "digests", "--n", str(args.n), "--modules", m], capture_output=True, text=True, env=env, timeout=1800)
            if p.returncode != 0:
                print(p.stderr[-2000:])
                return 2
            outs.append(json.loads(p.stdout.strip().splitlines()[-1])[m])
        # fork pool, 16 workers, interleaved ranges
        ctx = mp.get_context("fork")
        step = max(1, args.n // 16)
        jobs = [(name, s, min(step, args.n - s), prop) for s in range(0, args.n, step)]
        with cf.ProcessPoolExecutor(16, mp_context=ctx) as ex:
            pooled = [d for part in ex.map(_pool_job, jobs) for d in part]
        errs = sum(1 for x in a if x.startswith("ERR"))
        variants = {"in-process-2nd": b, "fresh-hashseed0": outs[0], "fresh-hashseed12345": outs[1], "fork-pool-16": pooled}
        for label, other in variants.items():
            diff = [i for i, (x, y) in enumerate(zip(a, other)) if x != y]
            if diff or len(other) != len(a):
                bad += 1
                print(f"NONDETERMINISM module={m} variant={label} first-differing-indices={diff[:10]}")
        print(f"module={m} seeds={args.n} harness-errors={errs} variants={list(variants)} -> {'OK' if not bad else 'DIVERGED'}")
        if errs:
            bad += 1
    return 2 if bad else 0


if __name__ == "__main__":
    sys.exit(main())
