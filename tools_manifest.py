#!/usr/bin/env python3
"""Regenerate MANIFEST.json from the table below (keeps it valid at all times)."""
import json, os
V = os.path.dirname(os.path.abspath(__file__))
PY = "/venv/bin/python"
CHECKS = {
 "C09": dict(engine="iosim", category="exploration", design="DESIGN.md section 5 (C09)", technique="deterministic simulation: baton-scheduled real threads + fault injection, seeded schedule search",
   text="Seeded exploration of thread interleavings (sync points, FS effects, tensor pieces, bytecode boundaries) x worker/budget/shard configurations x failing tensors/callbacks; exact deadlock criterion; byte-identity against the serial save. Sampling, not proof: a clean batch is evidence.",
   note="threading/concurrent.futures primitives are harness stubs (reported in evidence); one simulated thread runs at a time; instrumented tensors carry the byte accounting."),
 "C08": dict(engine="iosim", category="fault_enumeration", design="DESIGN.md section 5 (C08)", technique="deterministic simulation: crash-point and single-fault enumeration over interposed file-system effects",
   text="Per sampled workload every boundary between two file-system effects is checked as a crash point and every effect is failed with every legal errno (plus short writes, raising tensors at every piece, raising callbacks); exhaustive over single faults per workload, workloads themselves sampled (scenarios: absent/foreign/re-save-over-self/symlink/sharded, serial and simulated-parallel).",
   note="kill -9 crash model on a real tmpfs (no power-loss reordering); cleanup effects never failed; 'new bytes' taken from a fault-free serial save of the same workload."),
 "C07": dict(engine="iosim", category="exploration", design="DESIGN.md section 5 (C07)", technique="deterministic simulation: save / drop memory / reload durability round trip over the option grid, seeded schedules for parallel saves, injected tensor and FS faults",
   text="Seeded exploration of (initializer kinds x dtypes x sizes x threshold x alignment x shard limit x workers x backend x naming) configurations; every run saves, drops all memory, reloads from disk only and compares names/dtypes/shapes/bytes with harness-generated payloads, then checks the layout rules on the recorded ranges; a fault batch checks tensor-object identity after a raising save.",
   note="harness payloads are the reference; safetensors intra-file order and threshold equality are outside the statement and not checked; parallel saves run on stubbed threading primitives."),
 "C10": dict(engine="iosim", category="exploration", design="DESIGN.md section 5 (C10)", technique="deterministic simulation of an adversarial file system: generated directory worlds and location strings, byte reads traced at the I/O seam",
   text="Environment-only: no schedule is involved. Seeded (and, in the thorough tier, enumerated to depth 3) location strings x 13 base-directory spellings x 14 read entry points (incl. onnx_ir.load with bare/relative/symlinked model paths) against a tree with in/out symlinks, chained/absolute links, hard links and prefix siblings; oracle = independent stat/realpath classification + inode-level trace of read/mmap/copy_file_range.",
   note="static tree during each read (documented TOCTOU window not exercised); fail-closed rejections of allowed locations are not flagged."),
 "C01": dict(engine="irsim", category="exploration", design="DESIGN.md sections 4, 6 (C01)", technique="deterministic simulation degenerated to one client: seeded edit histories with rejected calls as faults, global invariant after every step",
   text="History-only: no concurrency, clock or I/O is involved. Seeded histories of 15-70 public editing calls (44 kinds, ~30% rejected) over several graphs, a nested subgraph, a function and a model; the bidirectional use-def/ownership invariant is recomputed from public accessors over the whole closure after every call, returned or raised.",
   note="only public calls are issued (node.graph = g and underscore names excluded); the oracle needs no model of what a call should do."),
 "C06": dict(engine="irsim", category="fault_enumeration", design="DESIGN.md sections 4, 6 (C06)", technique="deterministic simulation degenerated to one client: rejected calls as injected faults, planted at every position of multi-element arguments; snapshot before / after every raise",
   text="Same histories as C01 with a canonical snapshot of every reachable object (public accessors, identities via registry indices) before every call and compared after every raising call; the thorough tier enumerates op family x invalidity kind x argument length <= 4 x position on seeded base worlds.",
   note="name-authority counters (private, but listed as state by the statement) are read defensively and reported under a separate clause."),
 "C11": dict(engine="irsim", category="exploration", design="DESIGN.md section 6 (C11)", technique="deterministic simulation of cooperative tasks: seeded interleaving of live iterators with node-sequence edits, list reference model",
   text="Up to four live iterators (iter/reversed/recursive/all_nodes over graph or function) are stepped by the driver, interleaved with append/extend/insert/remove/move/sort edits aimed at cursor, neighbours, visited and unvisited nodes; trace predicates (exact next, resume after removed current, untouched exactly once in order, members only, termination) and len/index/slice/contains/reversed against a list model after every step.",
   note="predicates only where the statement is unambiguous; after sort only no-exception/termination/membership are required; recursive iterators are checked on the top-level projection plus nested exactly-once."),
 "C15": dict(engine="irsim", category="exploration", design="DESIGN.md section 6 (C15)", technique="deterministic simulation degenerated to one client: seeded add/remove/re-add/rename histories against a never-shrinking name model; NameFixPass on generated well-formed models",
   text="History-only. Part A: Engine A histories biased to unnamed and generated-looking explicit names check every auto-assigned name against the per-graph registered-name model and explicit names for stability; rename_values is checked all-or-nothing by snapshot. Part B: NameFixPass on seeded well-formed models (nested scopes, functions, missing/duplicated/generated-looking names): non-empty, unique per graph, no shadowing of visible outer values, initializer keys, nothing but names changed, already-unique names kept.",
   note="the registered-name model under-approximates; 'visible' outer values are those defined before the owner node; unsorted graphs and initializer order are recorded findings."),
 "C13": dict(engine="irsim", category="exploration", design="DESIGN.md section 6 (C13)", technique="deterministic simulation of two replicas: seeded edit histories routed to original or clone, isolation invariant after every op",
   text="History-only. A generated well-formed model is cloned (Model/Graph/Function/GraphView clone, deep_copy on/off, subgraph with/without allowed outer values, functionalize over 10 passes); at clone time the protos must be equal and the identity sets (graphs, nodes, values, shapes, types, metadata containers, collections) disjoint; then each of 10-40 Engine A edits is routed to one replica and the canonical snapshot of the other must not change.",
   note="tensors / non-graph Attr / ModelConfiguration may be shared; meta values are shared unless deep_copy; opset_imports is outside the statement; unsorted graphs only where cloning silently succeeds."),
 "C20": dict(engine="irsim", category="exploration", design="DESIGN.md section 6 (C20)", technique="deterministic simulation: the same seeded history run plain / under scheduled nested journals with exception exits / plain again; differential state and outcome comparison, call observer under the wrappers",
   text="The scheduler inserts journal enter / exit / exception-exit events (nesting <= 3) at arbitrary positions of a seeded Engine A history; per-op outcomes and snapshots must equal the un-journaled run, every completed instrumented call must have its entry in every active journal, class attributes must be restored after the outermost exit, a plain replay afterwards must agree, and entries must not keep IR objects alive.",
   note="instrumented-operation table read from the library; journal clock replaced by a step counter; process-global class state is checked pristine at the start of every run."),
 "C19": dict(engine="irsim", category="exploration", design="DESIGN.md section 6 (C19)", technique="deterministic simulation degenerated to one client: seeded interleavings of annotation calls (valid and invalid) with graph edits, clones and proto round trips; invariants after every op",
   text="History-only. Generated IRv11+ models; 15-60 ops mixing shard/set_pipeline_stage/add/remove(cascade) configuration with renames, replace_input_with, resize_inputs/outputs, Model.clone and from_proto(to_proto(.)) (continuing on the new model); after every op: specs target current inputs/outputs by identity, configurations are the registered objects, the library's own check reports nothing, serialized tensor_name/configuration_id equal current names, rejected requests change nothing.",
   note="workload restricted to what the statement covers (registered configurations, in-range devices, non-empty names, no rank change of a sharded value, cascade=True)."),
 "C14": dict(engine="irsim", category="exploration", design="DESIGN.md section 6 (C14)", technique="deterministic simulation: seeded pass schedules with faults injected at the ONNX C-API boundary and in lazy-tensor serialization; contract oracles after every pass",
   text="Generated checker-valid (and deliberately noisy) models x schedules of the 19 exported passes applied singly, to fixpoint, in Sequential / nested PassManager, or functionalized, with faults armed at onnx.checker.check_model / onnx.shape_inference.infer_shapes (ValidationError, RuntimeError, MemoryError) or a lazy initializer that raises during serialization; after every pass: identity rule, modified=False implies byte-identical serialization, bounded convergence and stable fixpoint, C01 invariants, order and serializability preserved, analysis-only passes leave the canonical snapshot exactly unchanged on success and failure.",
   note="the real ONNX C API runs unless a fault is armed; passes that raise are counted, not flagged."),
 "C03": dict(engine="irsim", category="exploration", design="DESIGN.md section 6 (C03)", technique="deterministic simulation degenerated to one client: serialization as an observer operation inside seeded edit histories; structural round-trip comparison",
   text="Scoped claim (the `histories` half of the quantifier). to_proto is inserted at arbitrary points of Engine A histories (no side effects, also when it raises; two calls give equal protos) and applied to generated well-formed models after seeded public-API edits (unsorted order, dropped types/shapes, empty-named optional outputs, None inputs, renames, node add/remove, metadata, attributes, five tensor implementations, symbolic/denoted shapes, sequence/optional types, device annotations); from_proto(to_proto(m)) is compared with m structurally (identities as traversal numbers).",
   note="breadth over inputs is limited to what the generators produce; normalisations: None=='' for names/doc strings, trailing unnamed outputs trimmed, value-info generated for initializers, shape without type unrepresentable."),
 "C17": dict(engine="iosim", category="exploration", design="DESIGN.md section 5 (C17)", technique="deterministic simulation of storage corruption on the load path: seeded byte-level and field-level damage of stored models, I/O seam and audit hook as file-access oracle",
   text="Generated valid models are serialized and damaged (bit flips, overwrites, truncation, duplicated/deleted/spliced spans; 26 field-level operators on the parsed proto); variants the protobuf parser rejects are discarded; survivors go to from_proto (a third through a file and onnx_ir.load) under a wall cap: must raise an Exception or return an IR that passes the C01 invariant checker and whose serialization raises or is a fix point; the FS seam and sys.addaudithook must record no file access during deserialization and tensor inspection.",
   note="fix point is compared modulo the documented value-info-for-initializers normalisation; accesses under the interpreter prefix, /repo and /verif are ignored."),
}
NA = [
 ("C02", "pure function of the input proto: no schedule, clock, fault, crash point or history for a simulator to vary (DESIGN.md section 7)"),
 ("C04", "pure function of (dtype, shape, values, representation, offset); the property tolerates no fault, nothing to inject (DESIGN.md section 7)"),
 ("C05", "program equivalence over all inputs; needs a reference evaluator (translation validation), no fault or interleaving dimension (DESIGN.md section 7)"),
 ("C12", "pure function of graph structure and previous order; its atomic-on-cycle clause is decided under C06 (DESIGN.md section 7)"),
 ("C16", "pure arithmetic, printing and parsing (DESIGN.md section 7)"),
 ("C18", "pure graph analysis over all cuts; strongest oracle is evaluation, not a simulation oracle (DESIGN.md section 7)"),
]
PENDING = {
 "C01": "check under construction (Engine A)", "C03": "check under construction (Engine A)", "C06": "check under construction (Engine A)",
 "C07": "check under construction (Engine B)", "C08": "check under construction (Engine B)", "C10": "check under construction (Engine B)",
 "C11": "check under construction (Engine A)", "C13": "check under construction (Engine A)", "C14": "check under construction (Engine A)",
 "C15": "check under construction (Engine A)", "C17": "check under construction (Engine B)", "C19": "check under construction (Engine A)",
 "C20": "check under construction (Engine A)",
}
def main():
    checks = []
    for pid, c in sorted(CHECKS.items()):
        checks.append({
          "property_id": pid,
          "quick_cmd": f"timeout 900 {PY} /verif/check.py {pid} --tier quick",
          "thorough_cmd": f"timeout 7200 {PY} /verif/check.py {pid} --tier thorough",
          "evidence_file": f"/verif/evidence/{pid}.json",
          "replay_cmd_template": f"{PY} /verif/check.py {pid} --replay {{path}}",
          "engine": c["engine"],
          "level_claimed": {"category": c["category"], "text": c["text"], "design_ref": c["design"]},
          "level_note": c["note"],
          "technique": c["technique"],
        })
    na = [{"property_id": p, "reason": r} for p, r in NA]
    na += [{"property_id": p, "reason": r} for p, r in sorted(PENDING.items()) if p not in CHECKS]
    m = {
      "version": 1,
      "setup_cmd": f"cd /verif && {PY} -c \"import onnx_ir, os, jsonschema, numpy, onnx; assert os.path.realpath(onnx_ir.__file__).startswith('/repo/src')\" && PYTHONHASHSEED=0 timeout 600 {PY} /verif/selftest.py determinism --n 12",
      "hooks": {"guard": "ONNX_IR_PY_VERIF", "enable": "no hooks in /repo: every seam is a module-global name (threading, concurrent, open, os, shutil, tempfile, mmap, onnx, time) rebound by the harness in that module's namespace from its own process; the guard name is reserved but unused",
                "baseline_off_cmd": "cd /repo && /venv/bin/python -m pytest -ra -q -p no:cacheprovider --timeout=900 --continue-on-collection-errors", "source_commits": [], "add_only": True},
      "engines": [
        {"name": "iosim", "path": "/verif/iosim", "serves_properties": sorted(p for p, c in CHECKS.items() if c["engine"] == "iosim"), "kind_free_text": "deterministic simulation of threads (baton scheduler over real threads) and file system (interposed effects, crash points, injected errors) on a real tmpfs"},
        {"name": "irsim", "path": "/verif/irsim", "serves_properties": sorted(p for p, c in CHECKS.items() if c["engine"] == "irsim"), "kind_free_text": "seeded edit-history simulation with rejected calls as faults, cooperative tasks (iterators, journals, clones, passes), reference models and invariants after every step"},
      ],
      "checks": checks,
      "not_applicable": na,
      "notes": "All checks: exit 0 held / 1 VIOLATION with replay / 2 harness error. VERIF_SEED selects the batch; VERIF_WALL overrides the wall budget; VERIF_REPO_SRC points the checks at a scratch source tree (used for sensitivity runs only).",
    }
    json.dump(m, open(os.path.join(V, "MANIFEST.json"), "w"), indent=1)
if __name__ == "__main__":
    main()
