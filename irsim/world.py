"""Engine A world: a registry of every IR object the driver created or met.

Objects are addressed as "the (a mod n)-th object of kind K in creation /
discovery order", so every operation list is executable and shrinking needs no
repair step.
"""

from __future__ import annotations

import onnx_ir as ir


class World:
    KINDS = ("graphs", "nodes", "values", "functions", "models", "tensors")

    def __init__(self) -> None:
        self.graphs: list = []
        self.nodes: list = []
        self.values: list = []
        self.functions: list = []
        self.models: list = []
        self.tensors: list = []
        self.last_passed: list = []  # nodes the last op handed to a graph's add / sort method
        self._index: dict[int, tuple[str, int]] = {}
        self._ident: dict[int, int] = {}
        self._ident_keep: list = []
        self.counter = 0  # for unique explicit names
        self.last_new = None  # (node, explicit name argument) of the last new_node op

    # ------------------------------------------------------------- registry
    def reg(self, obj):
        if obj is None:
            return None
        key = id(obj)
        if key in self._index:
            return obj
        if isinstance(obj, ir.Node):
            lst, kind = self.nodes, "n"
        elif isinstance(obj, ir.Value):
            lst, kind = self.values, "v"
        elif isinstance(obj, ir.Graph):
            lst, kind = self.graphs, "g"
        elif isinstance(obj, ir.Function):
            lst, kind = self.functions, "f"
        elif isinstance(obj, ir.Model):
            lst, kind = self.models, "m"
        else:
            lst, kind = self.tensors, "t"
        self._index[key] = (kind, len(lst))
        lst.append(obj)
        return obj

    def ref(self, obj):
        """Stable reference of an object (registering it if new)."""
        if obj is None:
            return None
        key = id(obj)
        r = self._index.get(key)
        if r is None:
            self.reg(obj)
            r = self._index[key]
        return r

    def known(self, obj) -> bool:
        return id(obj) in self._index

    def ident(self, obj) -> int | None:
        """Small integer standing for the identity of an auxiliary object (type, shape, dict...)."""
        if obj is None:
            return None
        key = id(obj)
        r = self._ident.get(key)
        if r is None:
            r = self._ident[key] = len(self._ident)
            self._ident_keep.append(obj)  # keep alive so that ids are not reused
        return r

    # -------------------------------------------------------------- picking
    @staticmethod
    def pick(lst: list, a: int):
        if not lst:
            return None
        return lst[a % len(lst)]

    def node(self, a: int):
        return self.pick(self.nodes, a)

    def value(self, a: int):
        return self.pick(self.values, a)

    def graph(self, a: int):
        return self.pick(self.graphs, a)

    def fresh_name(self, prefix: str) -> str:
        self.counter += 1
        return f"{prefix}{self.counter}"

    # --------------------------------------------------------------- closure
    def close(self) -> None:
        """Register everything reachable through public accessors (deterministic order)."""
        seen_g = 0
        seen_n = 0
        seen_v = 0
        seen_f = 0
        seen_m = 0
        while True:
            progressed = False
            while seen_m < len(self.models):
                m = self.models[seen_m]
                seen_m += 1
                progressed = True
                self.reg(m.graph)
                for f in m.functions.values():
                    self.reg(f)
            while seen_f < len(self.functions):
                f = self.functions[seen_f]
                seen_f += 1
                progressed = True
                self.reg(f.graph)
                # default values of the function's own attribute parameters may be graphs
                for a in f.attributes.values():
                    if isinstance(a, ir.Attr) and not a.is_ref() and a.value is not None:
                        if a.type == ir.AttributeType.GRAPH:
                            self.reg(a.value)
                        elif a.type == ir.AttributeType.GRAPHS:
                            for g_ in a.value:
                                self.reg(g_)
            while seen_g < len(self.graphs):
                g = self.graphs[seen_g]
                seen_g += 1
                progressed = True
                for v in list(g.inputs):
                    self.reg(v)
                for v in list(g.outputs):
                    self.reg(v)
                for v in list(g.initializers.values()):
                    self.reg(v)
                for n in list(g):
                    self.reg(n)
            while seen_n < len(self.nodes):
                n = self.nodes[seen_n]
                seen_n += 1
                progressed = True
                for v in n.inputs:
                    self.reg(v)
                for v in n.outputs:
                    self.reg(v)
                self.reg(n.graph)
                # values referenced by device annotations are references of the node too
                for dc in getattr(n, "device_configurations", ()) or ():
                    for spec in getattr(dc, "sharding_specs", ()) or ():
                        self.reg(getattr(spec, "value", None))
                for attr in list(n.attributes.values()):
                    try:
                        if attr.type == ir.AttributeType.GRAPH and attr.value is not None:
                            self.reg(attr.value)
                        elif attr.type == ir.AttributeType.GRAPHS and attr.value is not None:
                            for sg in attr.value:
                                self.reg(sg)
                    except Exception:  # noqa: BLE001
                        pass
            while seen_v < len(self.values):
                v = self.values[seen_v]
                seen_v += 1
                progressed = True
                self.reg(v.producer())
                for u in v.uses():
                    self.reg(u.node)
                self.reg(v.graph)
                if v.const_value is not None:
                    self.reg(v.const_value)
            if not progressed:
                break
