"""C01 / C06 — one driver, two verdict streams.

C01: after every public editing call (returned or raised) the bidirectional
     use-def / ownership invariant holds over every reachable object.
C06: whenever such a call raises, the canonical snapshot of every reachable
     object is exactly what it was before the call.

The "faults" of this engine are rejected calls: unfiltered operand picks and
invalid elements planted at a chosen position of multi-element arguments.
See DESIGN.md sections 4 and 6 (C01, C06).
"""

from __future__ import annotations

import copy
import logging
import os

from irsim import invariants, ops, snapshot
from irsim.world import World
from simcore import findings as _findings
from simcore import knobs as _knobs
from simcore.prng import Streams, digest

logging.getLogger("onnx_ir").setLevel(logging.ERROR)

PROPERTY = os.environ.get("VERIF_PROPERTY", "C01")
if PROPERTY not in ("C01", "C06"):
    PROPERTY = "C01"
LEVEL = "exploration" if PROPERTY == "C01" else "fault_enumeration"
ops.AVOID_NODE_OUTPUTS_ON_GRAPH_INPUTS = PROPERTY != "C01"
TIERS = {
    "quick": {"max_runs": 4000, "optimize_runs": 800, "wall": 420, "optimize_wall": 180, "chunk": 60, "shrink_budget": 400, "shrink_wall": 60},
    "thorough": {"wall": 900, "optimize_wall": 120, "chunk": 200, "shrink_budget": 800, "shrink_wall": 240},
}
RULE = (
    "each run = one seeded history: a fixed bootstrap (2 graphs, a nested subgraph, a function, a model) followed by 15-70 operations "
    "drawn from 44 public editing calls (node construction, node-sequence edits, connection edits, the MutableSequence surface of graph "
    "inputs/outputs, the MutableMapping surface of initializers, renames, attribute setters) with operands picked from the registry of all "
    "objects ever created, 25-40% of the calls rejected (foreign / produced / unowned operands, bad indices, invalid elements planted at "
    "position k of multi-element arguments); "
    + ("the invariant is re-checked over the whole closure after every call. " if PROPERTY == "C01" else "a canonical snapshot of the whole closure is taken before every call and compared after every raise; the thorough tier additionally enumerates op family x invalidity kind x argument length m<=4 x position k<m on seeded base worlds. ")
    + "distinct = distinct digest of the final canonical snapshot; non-trivial = the history contained at least one rejected and five accepted calls"
)
ASSUMPTIONS = [
    "only public calls are issued; `node.graph = g` (the raw back-pointer setter the Graph itself uses) and underscore-prefixed names are excluded",
    "observation is through public accessors only (name-authority counters, which the C06 statement lists as state, are read defensively and reported under their own clause)",
    "single client: no concurrency is involved; the simulator degenerates to a seeded operation-and-rejection sequence checked step by step",
    "C06 histories do not build Node(outputs=[graph input/initializer]) (recorded C01 finding), so states reachable only through that defect are not explored",
]
REAL_STUB = {"real": ["all of onnx_ir (core, containers, linked list, name authority, convenience)"], "stub": [], "harness_extension_points": []}
EXHAUSTIVE = {"quick": False, "thorough": False}

ENUM_FAMILIES = ["extend", "insert_before", "insert_after", "remove", "node_prepend", "node_append", "io_extend", "io_setslice", "init_update"]


def gen_case(run_seed: int, tier: str, index: int = 0) -> dict:
    st = Streams(run_seed)
    r = st.rng("workload")
    if PROPERTY == "C06" and tier == "thorough" and index % 4 == 0:
        n = r.choice([6, 12, 20, 30])
        return {"property": PROPERTY, "run_seed": run_seed, "ops": ops.bootstrap_ops() + ops.gen_ops(r, n), "enumerate": True}
    n = r.choice([15, 20, 30, 40, 55, 70])
    # configuration knob of the library itself: onnx_ir.DEBUG turns on extra argument and invariance checks
    return {"property": PROPERTY, "warnings_error": _knobs.warnings_knob(run_seed), "run_seed": run_seed, "ops": ops.bootstrap_ops() + ops.gen_ops(r, n), "debug": Streams(run_seed).rng("debug-knob").random() < 0.25}


def enum_trials() -> list:
    """op family x argument length m x planted position k x invalidity kind (x in/out for IO collections)."""
    out = []
    for fam in ENUM_FAMILIES:
        for m in range(1, 5):
            for k in range(m):
                for kind in (0, 1, 2, 4, 6):  # 4 / 6: an element of the wrong type (not a node / not a value)
                    for io in ((0, 1) if fam.startswith("io_") else (0,)):
                        for safe in ((0, 1) if fam == "remove" else (0,)):
                            # d bits: bit0 prefer-valid, bits1-2 m-1, (d>>3)%3==0 plant, bits5.. k, bits7.. kind
                            d = 1 | ((m - 1) << 1) | (0 << 3) | (k << 5) | (kind << 7) | (safe << 10) | (io << 12)
                            if (d >> 3) % 3 != 0:
                                continue
                            out.append((fam, d, m, k, kind))
    return out


def _clause_for_diff(op, exc_name: str, d: list) -> tuple[str, str]:
    (ref, field, before, after) = d[0]
    only_na = all(f == "name_authority" for (_r, f, _b, _a) in d)
    kind = {"v": "value", "n": "node", "g": "graph", "f": "function", "m": "model", "t": "tensor"}[ref[0]]
    cls = "name-authority-state" if only_na else "state-changed"
    misuse = ":misuse" if exc_name in ("TypeError", "AttributeError") else ""
    clause = f"{cls}:{op[0]}:{exc_name}:{kind}.{field}{misuse}"
    detail = f"{op[0]} raised {exc_name} but {kind} {ref} field '{field}' changed: {before!r} -> {after!r}" + (f" (+{len(d) - 1} more differences)" if len(d) > 1 else "")
    return clause, detail[:700]


def run_history(op_list: list, *, want: str, known, stats: dict, skip: set, trace: list | None = None):
    """Execute a history.  Returns (violation | None, index, world, matched_known | None)."""

    def inc(k, n=1):
        stats[k] = stats.get(k, 0) + n

    w = World()
    if stats is not None and DEBUG_KNOB["on"]:
        inc("runs_with_onnx_ir_DEBUG")
    for i, op in enumerate(op_list):
        if i in skip:
            continue
        before = snapshot.snapshot(w) if want == "C06" else None
        r = ops.apply_op(w, op)
        if trace is not None:
            trace.append((op[0], r[0], r[1] if r[0] == "raise" else None))
        inc(("ok_" if r[0] == "ok" else "raise_") + op[0])
        inc("steps")
        if r[0] == "raise":
            inc("rejected_calls")
            inc("exc_" + r[1])
        viol = None
        if want == "C01":
            try:
                inv = invariants.check(w)
            except Exception as e:  # noqa: BLE001 - an accessor blowing up is itself an inconsistency
                inv = {"clause": "accessor-raised", "detail": f"{type(e).__name__}: {e}"}
            if inv is not None:
                viol = {"clause": inv["clause"], "detail": f"after op {i} {op[0]} ({r[0]}{' ' + r[1] if r[0] == 'raise' else ''}): {inv['detail']}", "key": f"{inv['clause']}|{op[0]}|{r[0]}{':' + r[1] if r[0] == 'raise' else ''}", "op_index": i}
        elif r[0] == "raise":
            after = snapshot.snapshot(w)
            if after != before:
                d = snapshot.diff(before, after)
                if d:
                    clause, detail = _clause_for_diff(op, r[1], d)
                    viol = {"clause": clause, "detail": f"op {i}: " + detail, "key": clause, "op_index": i}
                    inc("reach_raise_with_state_change")
        if viol is not None:
            hit = _findings.match(known, want, viol["key"])
            return viol, i, w, hit
    return None, -1, w, None


def run_case(case: dict) -> dict:
    with _knobs.interpreter(case):
        return _run_case(case)


def _run_case(case: dict) -> dict:
    stats: dict = {}
    res = {"violation": None, "violations": [], "error": None, "stats": stats, "steps": 0, "distinct": [], "states": [], "case": case}
    known = _findings.load()
    want = case.get("property", PROPERTY)
    op_list = case["ops"]
    if case.get("enumerate"):
        return _run_enumeration(case, res, known, want)
    skip: set = set(case.get("skip", []))
    trace: list = []
    known_seen = []
    import onnx_ir

    DEBUG_KNOB["on"] = bool(case.get("debug"))
    saved_debug = onnx_ir.DEBUG
    onnx_ir.DEBUG = bool(case.get("debug"))
    try:
        return _run_case_body(case, res, known, want, op_list, skip, trace, known_seen, stats)
    finally:
        onnx_ir.DEBUG = saved_debug
        DEBUG_KNOB["on"] = False


DEBUG_KNOB = {"on": False}


def _run_case_body(case, res, known, want, op_list, skip, trace, known_seen, stats):
    for _attempt in range(12):
        trace.clear()
        st_local: dict = {}
        viol, i, w, hit = run_history(op_list, want=want, known=known, stats=st_local, skip=skip, trace=trace)
        if viol is not None and hit is not None:
            # quarantine: drop the offending op and re-execute, so later steps are still checked
            known_seen.append(viol)
            skip.add(i)
            continue
        for k, v in st_local.items():
            stats[k] = stats.get(k, 0) + v
        break
    else:
        viol, w = None, World()
    res["steps"] = stats.get("steps", 0)
    res["event_digest"] = digest(trace)
    for kv in known_seen:
        res["violations"].append(kv)
        stats["known_finding_quarantined"] = stats.get("known_finding_quarantined", 0) + 1
    if viol is not None:
        c = copy.deepcopy(case)
        c["ops"] = op_list[: viol["op_index"] + 1]
        c["skip"] = sorted(s for s in skip if s <= viol["op_index"])
        res["case"] = c
        res["violation"] = viol
        res["violations"].append(viol)
        return res
    n_ok = sum(1 for t in trace if t[1] == "ok")
    n_rej = sum(1 for t in trace if t[1] == "raise")
    try:
        final = snapshot.snapshot(w, tensors=False)
        if n_ok >= 5 and n_rej >= 1:
            res["distinct"] = [digest(sorted(final.items()))]
        stats["closure_objects"] = stats.get("closure_objects", 0) + len(final)
    except Exception:  # noqa: BLE001
        pass
    res["sample"] = {"ops": [f"{t[0]}:{t[1]}" + (f":{t[2]}" if t[2] else "") for t in trace][:80], "accepted": n_ok, "rejected": n_rej}
    return res


def _run_enumeration(case: dict, res: dict, known, want: str) -> dict:
    """Fault enumeration: every (family, m, k, invalidity kind) planted once on the base world."""
    stats = res["stats"]
    base = case["ops"]
    trials = enum_trials()
    r = Streams(case["run_seed"]).rng("enum")
    trail = []
    for (fam, d, m, k, kind) in trials:
        op = [fam, r.randrange(1 << 24), r.randrange(1 << 24), r.randrange(1 << 24), d]
        st_local: dict = {}
        trace: list = []
        # C06 needs only the last op checked, but re-checking the base is cheap and keeps one code path
        viol, i, w, hit = run_history(base + [op], want=want, known=known, stats=st_local, skip=set(case.get("skip", [])), trace=trace)
        last = trace[-1] if trace else ("?", "?", None)
        stats["enum_trials"] = stats.get("enum_trials", 0) + 1
        stats["steps"] = stats.get("steps", 0) + 1
        if last[1] == "raise":
            stats["enum_trials_rejected"] = stats.get("enum_trials_rejected", 0) + 1
            stats[f"enum_rejected_{fam}"] = stats.get(f"enum_rejected_{fam}", 0) + 1
            res["distinct"].append(digest((fam, m, k, kind, d, digest(base))))
        trail.append((fam, d, last[1], last[2]))
        if viol is not None and hit is None and i == len(base):
            c = copy.deepcopy(case)
            c.pop("enumerate", None)
            c["ops"] = base + [op]
            res["case"] = c
            res["violation"] = viol
            res["violations"].append(viol)
            break
        if viol is not None and hit is not None:
            res["violations"].append(viol)
    res["steps"] = stats.get("steps", 0)
    res["event_digest"] = digest(trail)
    res["sample"] = {"enumerated_trials": len(trials), "base_ops": len(base), "first": [f"{t[0]}:d={t[1]}:{t[2]}" for t in trail[:12]]}
    return res


def shrink_candidates(case: dict, violation: dict):
    op_list = case["ops"]
    n = len(op_list)
    last = n - 1
    # drop chunks, then single ops (never the last one: it is the failing call)
    for width in (16, 8, 4, 2, 1):
        if width >= n:
            continue
        for lo in range(0, last, width):
            hi = min(lo + width, last)
            if hi <= lo:
                continue
            c = copy.deepcopy(case)
            c["ops"] = op_list[:lo] + op_list[hi:]
            c["skip"] = []
            yield c
    # simplify arguments of each op
    for i, op in enumerate(op_list):
        for j in (1, 2, 3, 4):
            if op[j] > 64:
                c = copy.deepcopy(case)
                c["ops"][i][j] = op[j] % 64
                yield c
            if op[j] > 0 and j != 4:
                c = copy.deepcopy(case)
                c["ops"][i][j] = 0
                yield c


def finding_key(case: dict, violation: dict) -> str:
    return violation.get("key") or violation.get("clause")


def check_reach(agg: dict, tier: str):
    st = agg["stats"]
    need = ["rejected_calls"] + ["ok_" + k for k in ("append", "extend", "insert_before", "remove", "replace_input", "io_setitem", "io_delitem", "init_setitem", "value_name", "rename_values", "rauw", "sort")]
    need += ["raise_" + k for k in ("extend", "insert_after", "remove", "io_extend", "io_insert", "io_setitem", "init_setitem", "value_name", "resize_outputs", "rauw")]
    missing = [k for k in need if not st.get(k)]
    return missing if agg["runs"] > 300 else []


def evidence_extra(agg: dict, tier: str) -> dict:
    st = agg["stats"]
    acc = sum(v for k, v in st.items() if k.startswith("ok_"))
    rej = st.get("rejected_calls", 0)
    out = {"checked_steps": st.get("steps", 0), "accepted_calls": acc, "rejected_calls": rej, "histories": agg["runs"]}
    if PROPERTY == "C06":
        out["enumerated_fault_trials"] = st.get("enum_trials", 0)
        out["enumerated_fault_trials_rejected"] = st.get("enum_trials_rejected", 0)
        out["enumeration_space"] = "9 op families x argument length m<=4 x position k<m x 3 invalidity kinds (x in/out collection, x safe flag) per base world"
    return out
