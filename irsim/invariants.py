"""The C01 invariant: both directions of every use-def / ownership relation agree.

Computed from public accessors over the closure of the registry.  No model of
what a call *should do* is needed: the statement is about agreement.
"""

from __future__ import annotations

from irsim.world import World


def _is(a, b) -> bool:
    return a is b


def check(w: World, *, graphs_only=None) -> dict | None:
    """Return the first violated clause as dict(clause, detail, obj) or None."""
    w.close()
    values = list(w.values)
    nodes = list(w.nodes)
    graphs = list(w.graphs)

    def vref(v):
        return w.ref(v)

    # ---- 1. uses <-> node inputs
    for v in values:
        uses = list(v.uses())
        seen = set()
        for u in uses:
            key = (id(u.node), u.idx)
            if key in seen:
                return {"clause": "uses-duplicate", "detail": f"value {vref(v)} lists use ({w.ref(u.node)}, {u.idx}) twice"}
            seen.add(key)
            ins = u.node.inputs
            if not (0 <= u.idx < len(ins)) or ins[u.idx] is not v:
                return {"clause": "use-without-input", "detail": f"value {vref(v)} ({v.name!r}) lists use ({w.ref(u.node)}, {u.idx}) but that node input is {w.ref(ins[u.idx]) if 0 <= u.idx < len(ins) else 'out of range'}"}
        cons = list(v.consumers())
        want = []
        for u in uses:
            if not any(u.node is c for c in want):
                want.append(u.node)
        if len(cons) != len(want) or any(a is not b for a, b in zip(cons, want)):
            return {"clause": "consumers-mismatch", "detail": f"value {vref(v)}: consumers() disagrees with uses()"}
    for n in nodes:
        for i, x in enumerate(n.inputs):
            if x is None:
                continue
            if not any(u.node is n and u.idx == i for u in x.uses()):
                return {"clause": "input-without-use", "detail": f"node {w.ref(n)} ({n.name!r}) holds value {vref(x)} ({x.name!r}) at input {i} but the value does not list that use"}
        # ---- 2. outputs <-> producer/index
        for j, o in enumerate(n.outputs):
            if o.producer() is not n or o.index() != j:
                return {"clause": "output-producer-mismatch", "detail": f"node {w.ref(n)} output {j} is value {vref(o)} whose producer()/index() is {w.ref(o.producer())}/{o.index()}"}
    for v in values:
        p = v.producer()
        if p is not None:
            outs = p.outputs
            idx = v.index()
            if idx is None or not (0 <= idx < len(outs)) or outs[idx] is not v:
                return {"clause": "producer-without-output", "detail": f"value {vref(v)} ({v.name!r}) names producer {w.ref(p)} index {idx} but that node does not hold it there"}
    # ---- 3. node.graph <-> graph node sequence
    membership: dict[int, list] = {}
    for g in graphs:
        listing = list(g)
        if len(listing) != len(g):
            return {"clause": "graph-len-mismatch", "detail": f"graph {w.ref(g)}: len()={len(g)} but iteration yields {len(listing)} nodes"}
        rev = list(reversed(g))
        if len(rev) != len(listing) or any(a is not b for a, b in zip(rev, reversed(listing))):
            return {"clause": "graph-reverse-mismatch", "detail": f"graph {w.ref(g)}: reversed() is not the mirror of iteration"}
        ids = set()
        for n in listing:
            if id(n) in ids:
                return {"clause": "node-twice-in-graph", "detail": f"graph {w.ref(g)} lists node {w.ref(n)} twice"}
            ids.add(id(n))
            membership.setdefault(id(n), []).append(g)
            if n.graph is not g:
                return {"clause": "listed-node-wrong-graph", "detail": f"graph {w.ref(g)} lists node {w.ref(n)} ({n.name!r}) whose .graph is {w.ref(n.graph)}"}
        if listing:
            try:
                if g[0] is not listing[0] or g[-1] is not listing[-1]:
                    return {"clause": "graph-index-mismatch", "detail": f"graph {w.ref(g)}: g[0]/g[-1] disagree with iteration"}
            except Exception as e:  # noqa: BLE001
                return {"clause": "graph-index-mismatch", "detail": f"graph {w.ref(g)}: indexing raised {type(e).__name__}"}
    for n in nodes:
        g = n.graph
        if g is not None:
            if not any(g is h for h in membership.get(id(n), [])):
                return {"clause": "node-graph-not-listing", "detail": f"node {w.ref(n)} ({n.name!r}) names graph {w.ref(g)} but that graph's node sequence does not contain it"}
        if len(membership.get(id(n), [])) > 1:
            return {"clause": "node-in-two-graphs", "detail": f"node {w.ref(n)} is listed by {[w.ref(h) for h in membership[id(n)]]}"}
    # ---- 4. ownership flags <-> collections
    as_input: dict[int, list] = {}
    as_output: dict[int, list] = {}
    as_init: dict[int, list] = {}
    for g in graphs:
        for v in g.inputs:
            as_input.setdefault(id(v), []).append(g)
        for v in g.outputs:
            as_output.setdefault(id(v), []).append(g)
        for k, v in g.initializers.items():
            as_init.setdefault(id(v), []).append(g)
            if k != v.name:
                return {"clause": "initializer-key-name", "detail": f"graph {w.ref(g)} stores initializer {vref(v)} named {v.name!r} under key {k!r}"}
    for v in values:
        i_in, i_out, i_init = id(v) in as_input, id(v) in as_output, id(v) in as_init
        if v.is_graph_input() != i_in:
            return {"clause": "is-graph-input-mismatch", "detail": f"value {vref(v)} ({v.name!r}): is_graph_input()={v.is_graph_input()} but it {'is' if i_in else 'is not'} in a graph's inputs"}
        if v.is_graph_output() != i_out:
            return {"clause": "is-graph-output-mismatch", "detail": f"value {vref(v)} ({v.name!r}): is_graph_output()={v.is_graph_output()} but it {'is' if i_out else 'is not'} in a graph's outputs"}
        if v.is_initializer() != i_init:
            return {"clause": "is-initializer-mismatch", "detail": f"value {vref(v)} ({v.name!r}): is_initializer()={v.is_initializer()} but it {'is' if i_init else 'is not'} in a graph's initializers"}
        owners = []
        for lst in (as_input.get(id(v), []), as_output.get(id(v), []), as_init.get(id(v), [])):
            for g in lst:
                if not any(g is h for h in owners):
                    owners.append(g)
        if len(owners) > 1:
            return {"clause": "value-owned-by-two-graphs", "detail": f"value {vref(v)} is input/output/initializer of {[w.ref(g) for g in owners]}"}
        if owners:
            if v.graph is not owners[0]:
                return {"clause": "value-graph-mismatch", "detail": f"value {vref(v)} ({v.name!r}) is in a collection of graph {w.ref(owners[0])} but .graph is {w.ref(v.graph)}"}
        elif v.producer() is None and v.graph is not None:
            return {"clause": "value-graph-dangling", "detail": f"value {vref(v)} ({v.name!r}) is in no graph collection and has no producer, yet .graph is {w.ref(v.graph)}"}
        # ---- 5. inputs and initializers have no producer
        if (i_in or i_init) and v.producer() is not None:
            return {"clause": "input-or-initializer-has-producer", "detail": f"value {vref(v)} ({v.name!r}) is a graph {'input' if i_in else 'initializer'} and is produced by node {w.ref(v.producer())}"}
    # ---- 6. predecessors / successors
    for n in nodes:
        want_p = []
        for x in n.inputs:
            if x is not None and x.producer() is not None and not any(x.producer() is q for q in want_p):
                want_p.append(x.producer())
        got_p = list(n.predecessors())
        if len(got_p) != len(want_p) or any(a is not b for a, b in zip(got_p, want_p)):
            return {"clause": "predecessors-mismatch", "detail": f"node {w.ref(n)}: predecessors() disagrees with inputs' producers"}
        want_s = []
        for o in n.outputs:
            for u in o.uses():
                if not any(u.node is q for q in want_s):
                    want_s.append(u.node)
        got_s = list(n.successors())
        if len(got_s) != len(want_s) or any(a is not b for a, b in zip(got_s, want_s)):
            return {"clause": "successors-mismatch", "detail": f"node {w.ref(n)}: successors() disagrees with outputs' uses"}
    return None
