"""C19 — device annotations follow object identity and never dangle.

Seeded interleavings of shard / set_pipeline_stage / add_ / remove_device_configuration
with renames, input replacement, resizing, cloning and proto round trips on
generated IRv11 models; invariants after every op.  See DESIGN.md section 6 (C19).
"""

from __future__ import annotations

import copy
import logging
import random

import onnx_ir as ir

from irsim import modelgen, snapshot
from irsim.world import World
from simcore import knobs as _knobs
from simcore.prng import Streams, digest

logging.getLogger("onnx_ir").setLevel(logging.ERROR)

try:  # the statement names the library's own check; guarded: if it disappears the clause is skipped and reported
    from onnx_ir._multi_device import _check_device_configurations
except Exception:  # noqa: BLE001
    _check_device_configurations = None

PROPERTY = "C19"
LEVEL = "exploration"
TIERS = {
    "quick": {"max_runs": 3000, "optimize_runs": 600, "wall": 420, "optimize_wall": 180, "chunk": 40, "shrink_budget": 300, "shrink_wall": 60},
    "thorough": {"wall": 600, "optimize_wall": 90, "chunk": 100, "shrink_budget": 600, "shrink_wall": 240},
}
RULE = (
    "each run = one seeded IRv11+ model (nested subgraphs, functions, values of known and unknown rank) and a history of 15-60 ops drawn from "
    "{add/remove(cascade, by object or name) device configuration, shard with valid and invalid arguments (axis out of range, repeated incl. "
    "negative aliases, num_shards<1, negative/conflicting stage, value not on the node), set_pipeline_stage, value/node renames, "
    "replace_input_with, resize_inputs/outputs, Model.clone (continue on the clone), proto round trip (continue on the reloaded model)}; "
    "invariants after every op; distinct = digest of (model spec, op outcomes); non-trivial = at least 3 annotations existed while a graph edit, clone or reload happened"
)
ASSUMPTIONS = [
    "the workload stays inside what the statement covers: registered configurations only, device indices within num_devices, non-empty names, no rank change of a sharded value, cascade=True removals",
    "the library's own consistency check is imported from a private module (the statement names it); if the import fails the clause is skipped and counted",
    "serialized references are located by (unique) node name",
]
REAL_STUB = {"real": ["Node.shard / set_pipeline_stage / sharding_of", "Model.add/remove_device_configuration", "_multi_device check", "serde multi-device fields", "_cloner remapping"], "stub": [], "harness_extension_points": []}

OPS = ["add_cfg", "remove_cfg", "shard", "shard_invalid", "stage", "stage_invalid", "rename_value", "rename_node", "replace_input", "resize_inputs", "resize_outputs", "clone", "reload", "add_node", "remove_cfg_name", "shadow_rename", "annotate_direct", "inline"]
WEIGHTS = [4, 3, 16, 8, 5, 2, 6, 3, 8, 3, 4, 3, 4, 2, 2, 4, 5, 3]


def gen_case(run_seed: int, tier: str, index: int = 0) -> dict:
    r = Streams(run_seed).rng("workload")
    params = dict(
        p_graphs=Streams(run_seed).rng("graphs-attr").choice([0.0, 0.0, 0.12, 0.25]), ref_graph_attrs=Streams(run_seed).rng("ref-graph-attrs").choice([0.0, 0.0, 0.6]), more_ops=Streams(run_seed).rng("more-ops").random() < 0.5, n_nodes=r.choice([2, 4, 6, 9]), n_inputs=r.choice([1, 2, 3]), n_inits=r.choice([0, 1, 2]), n_outputs=r.choice([1, 2]), n_functions=r.choice([0, 1]),
        depth=r.choice([0, 1, 2]), typed=r.random() < 0.75, p_if=r.choice([0.1, 0.3]), ir_version=r.choice([11, 11, 12, 13]), p_multi=0.2,
    )  # fmt: skip
    n = r.choice([15, 25, 40, 60])
    steps = [[r.choices(OPS, WEIGHTS)[0], r.randrange(1 << 20), r.randrange(1 << 20), r.randrange(1 << 20)] for _ in range(n)]
    return {"property": PROPERTY, "warnings_error": _knobs.warnings_knob(run_seed), "run_seed": run_seed, "model_seed": r.randrange(1 << 30), "params": params, "steps": steps}


def _all_nodes(model) -> list:
    out = list(model.graph.all_nodes())
    for f in model.functions.values():
        out.extend(f.all_nodes())
    return out


def _annotations(model) -> int:
    return sum(len(dc.sharding_specs) + (1 if dc.pipeline_stage is not None else 0) for n in _all_nodes(model) for dc in n.device_configurations)


def check_invariants(model) -> tuple | None:
    registered = list(model.device_configurations)
    nodes = _all_nodes(model)
    for n in nodes:
        io = [v for v in list(n.inputs) + list(n.outputs) if v is not None]
        seen_cfg = []
        for dc in n.device_configurations:
            if dc.configuration is None or not any(dc.configuration is c for c in registered):
                return ("annotation-config-not-registered", f"node {n.name!r} has an annotation bound to configuration {getattr(dc.configuration, 'name', None)!r} which is not (the object) registered on the model")
            if any(dc.configuration is c for c in seen_cfg):
                return ("annotation-config-duplicated", f"node {n.name!r} has two device configurations for {dc.configuration.name!r}")
            seen_cfg.append(dc.configuration)
            for spec in dc.sharding_specs:
                if spec.value is None or not any(spec.value is v for v in io):
                    return ("annotation-value-not-on-node", f"node {n.name!r} keeps a sharding spec for value {getattr(spec.value, 'name', None)!r} which is not one of its current inputs/outputs")
            for spec in n.sharding_of(io[0]) if io else ():
                if spec.value is not io[0]:
                    return ("sharding-of-wrong", f"node {n.name!r}: sharding_of returned a spec of another value")
    if _check_device_configurations is not None:
        errs = _check_device_configurations(model)
        if errs:
            return ("library-check-reports", f"the library's device-configuration check reports: {errs[:2]}")
    return None


def check_serialized(model) -> tuple | None:
    try:
        proto = ir.to_proto(model)
    except Exception as e:  # noqa: BLE001
        return ("serialization-raised", f"to_proto raised {type(e).__name__}: {str(e)[:300]}")
    by_name: dict = {}

    def collect(graph_proto):
        for np_ in graph_proto.node:
            by_name.setdefault(np_.name, []).append(np_)
            for a in np_.attribute:
                if a.HasField("g"):
                    collect(a.g)
                for sg in a.graphs:
                    collect(sg)

    collect(proto.graph)
    for fp in proto.functions:
        collect(fp)  # (a FunctionProto has .node like a GraphProto; bodies of list-of-graphs attributes included)
    cfg_names = [c.name for c in proto.configuration] if hasattr(proto, "configuration") else None
    if cfg_names is not None and sorted(cfg_names) != sorted(c.name for c in model.device_configurations):
        return ("serialized-configurations", f"serialized configuration names {cfg_names} != model's {[c.name for c in model.device_configurations]}")
    for n in _all_nodes(model):
        if not n.device_configurations:
            continue
        cands = by_name.get(n.name, [])
        if len(cands) != 1:
            continue  # name not unique: cannot locate
        np_ = cands[0]
        want = [(dc.configuration.name, [s.value.name for s in dc.sharding_specs]) for dc in n.device_configurations]
        got = [(d.configuration_id, [s.tensor_name for s in d.sharding_spec]) for d in np_.device_configurations]
        if want != got:
            return ("serialized-references", f"node {n.name!r}: serialized (configuration_id, tensor_names) {got} != current names {want}")
    return None


def run_case(case: dict) -> dict:
    with _knobs.interpreter(case):
        return _run_case(case)


def _run_case(case: dict) -> dict:
    stats: dict = {}
    res = {"violation": None, "error": None, "stats": stats, "steps": 0, "distinct": [], "states": [], "case": case}

    def inc(k, n=1):
        stats[k] = stats.get(k, 0) + n

    rng = random.Random(case["model_seed"])
    model = modelgen.gen_model(rng, modelgen.Params(**case["params"]))
    fresh = [0]

    def fname(p):
        fresh[0] += 1
        return f"{p}{fresh[0]}"

    trace = []
    viol = None
    nontrivial = False
    for i, (op, a, b, c) in enumerate(case["steps"]):
        nodes = _all_nodes(model)
        cfgs = list(model.device_configurations)
        node = nodes[a % len(nodes)] if nodes else None
        expect_reject = False
        w = None
        before = None
        outcome = "ok"
        try:
            if op == "add_cfg":
                if (c >> 3) % 6 == 4:
                    # a request the documentation rejects: empty / already registered name, no device, mismatching names
                    expect_reject = True
                    w = World()
                    w.reg(model)
                    before = snapshot.snapshot(w, tensors=False)
                    how = (c >> 7) % 4
                    if how == 0:
                        model.add_device_configuration("", num_devices=2)
                    elif how == 1 and cfgs:
                        model.add_device_configuration(cfgs[a % len(cfgs)].name, num_devices=2)
                    elif how == 2:
                        model.add_device_configuration(fname("cfg"), num_devices=0)
                    else:
                        model.add_device_configuration(fname("cfg"), num_devices=2, device_names=("only_one",))
                    if how == 1 and not cfgs:
                        continue
                elif (c >> 3) % 6 == 5:
                    model.add_device_configuration(fname("cfg"), device_names=tuple(f"d{k}" for k in range(1 + b % 3)))
                else:
                    model.add_device_configuration(fname("cfg"), num_devices=1 + b % 4)
            elif op in ("remove_cfg", "remove_cfg_name"):
                if (c >> 3) % 7 == 5:
                    # a configuration the model does not have (by name / by object)
                    expect_reject = True
                    w = World()
                    w.reg(model)
                    before = snapshot.snapshot(w, tensors=False)
                    model.remove_device_configuration("no_such_configuration" if op == "remove_cfg_name" else ir.ModelConfiguration(name=cfgs[0].name if cfgs else "x", num_devices=1), cascade=True)
                if not cfgs:
                    continue
                cfg = cfgs[a % len(cfgs)]
                model.remove_device_configuration(cfg if op == "remove_cfg" else cfg.name, cascade=True)
                inc("cfg_removed_with_cascade")
            elif op in ("shard", "shard_invalid"):
                if node is None or not cfgs:
                    continue
                cfg = cfgs[b % len(cfgs)]
                io = [v for v in list(node.inputs) + list(node.outputs) if v is not None and v.name]
                if not io:
                    continue
                v = io[c % len(io)]
                rank = len(v.shape) if v.shape is not None else None
                eff_rank = rank
                if eff_rank is None and v.const_value is not None:
                    # the rank is known from the tensor and becomes the value's rank after a round trip
                    eff_rank = len(v.const_value.shape)
                if eff_rank is not None and rank is None:
                    rank_for_axis = eff_rank
                else:
                    rank_for_axis = rank
                axis = (c >> 4) % (rank_for_axis if rank_for_axis else 3) if (rank_for_axis is None or rank_for_axis > 0) else 0
                if rank is not None and rank > 0 and (c >> 8) % 3 == 0:
                    axis = axis - rank  # negative alias
                kw = dict(configuration=cfg, axis=axis, num_shards=1 + (c >> 10) % 3, device_indices=tuple(sorted({x % cfg.num_devices for x in ((c >> 12) % 5, (c >> 14) % 5)}))[: (c >> 16) % 3])
                if (c >> 18) % 4 == 0:
                    kw["pipeline_stage"] = (c >> 6) % 3
                if rank == 0 or eff_rank == 0:
                    continue
                if op == "shard_invalid":
                    kind = (b >> 4) % 7
                    expect_reject = True
                    if kind == 6:
                        # a device index that the configuration does not have (the library's own check rejects it)
                        kw["device_indices"] = (cfg.num_devices + (b >> 8) % 2,) if (b >> 9) % 2 else (0, -1 - (b >> 8) % 2)
                    elif kind == 0 and rank is not None:
                        kw["axis"] = rank + (b >> 8) % 2
                    elif kind == 1 and rank is not None:
                        kw["axis"] = -rank - 1
                    elif kind == 2:
                        kw["num_shards"] = 0 - (b >> 8) % 2
                    elif kind == 3:
                        kw["pipeline_stage"] = -1
                    elif kind == 4:
                        others = [x for n2 in nodes for x in n2.outputs if not any(x is y for y in io)]
                        if not others:
                            continue
                        v = others[(b >> 8) % len(others)]
                    else:
                        # repeat an axis already sharded (possibly through its negative alias) or conflict the stage
                        existing = [(dc, s) for dc in node.device_configurations for s in dc.sharding_specs]
                        if not existing:
                            continue
                        dc, s = existing[(b >> 8) % len(existing)]
                        v = s.value
                        r2 = len(v.shape) if v.shape is not None else None
                        ax = s.sharded_dims[0].axis
                        if r2 is not None and (b >> 12) % 2:
                            ax = ax - r2 if ax >= 0 else ax + r2
                        kw = dict(configuration=dc.configuration, axis=ax, num_shards=2)
                    w = World()
                    w.reg(model)
                    before = snapshot.snapshot(w, tensors=False)
                else:
                    # is the request invalid for a reason the statement lists (repeated axis, conflicting stage)?
                    r3 = len(v.shape) if v.shape is not None else None

                    def norm(ax, r3=r3):
                        return ax + r3 if (r3 is not None and ax < 0) else ax

                    for dc in node.device_configurations:
                        if dc.configuration is kw["configuration"]:
                            if kw.get("pipeline_stage") is not None and dc.pipeline_stage is not None and dc.pipeline_stage != kw["pipeline_stage"]:
                                expect_reject = True
                            for sp in dc.sharding_specs:
                                if sp.value is v and any(norm(sd.axis) == norm(kw["axis"]) for sd in sp.sharded_dims):
                                    expect_reject = True
                    if expect_reject:
                        inc("shard_legitimately_rejected")
                        w = World()
                        w.reg(model)
                        before = snapshot.snapshot(w, tensors=False)
                node.shard(v, **kw)
                inc("shard_applied")
            elif op == "inline":
                # function inlining copies the (annotated) nodes of a function body into the calling graph
                if not model.functions:
                    continue
                from onnx_ir.passes.common import InlinePass

                # a function body that shards one of the function's PARAMETERS of unknown rank says nothing about the rank of
                # the argument it will be inlined with: such a model is inconsistent by itself (like a rank change of a
                # sharded value, which the workload also stays away from)
                risky = any(
                    any(sp.value is fi for fi in f.inputs) and sp.value.shape is None
                    for f in model.functions.values() for x in f.all_nodes() for dc in x.device_configurations for sp in dc.sharding_specs
                )  # fmt: skip
                if not risky:
                    # ... and neither does a parameter of KNOWN rank when a call site passes an argument of another (or of
                    # unknown) rank: the model is ill-typed by itself, and inlining substitutes the argument for the parameter
                    # (false alarm of the thorough soak, seed 1404: 'sharded axis 1 of value ... is out of range (rank=1)')
                    tops_ = [model.graph] + [f_.graph for f_ in model.functions.values()]
                    calls_ = [x for t_ in tops_ for x in t_.all_nodes()]
                    for f in model.functions.values():
                        sharded_params = {i_ for i_, fi in enumerate(f.inputs) for x in f.all_nodes() for dc in x.device_configurations for sp in dc.sharding_specs if sp.value is fi}
                        if not sharded_params:
                            continue
                        for cnode in calls_:
                            if (cnode.domain, cnode.op_type, cnode.overload) != (f.domain, f.name, f.overload):
                                continue
                            for i_ in sharded_params:
                                arg = cnode.inputs[i_] if i_ < len(cnode.inputs) else None
                                want = f.inputs[i_].shape
                                if arg is None or arg.shape is None or want is None or len(arg.shape) != len(want):
                                    risky = True
                if risky:
                    inc("inline_skipped_sharded_parameter_of_unknown_rank")
                    continue
                had_f = sum(1 for f in model.functions.values() for x in f.all_nodes() if x.device_configurations)
                try:
                    InlinePass()(model)
                except Exception:  # noqa: BLE001 - earlier edits (resized inputs of a call node ...) can make a call site un-inlinable
                    inc("inline_refused")
                    continue
                inc("inline")
                if had_f:
                    inc("reach_inlined_annotated_function_nodes")
            elif op == "annotate_direct":
                # the record types themselves are public: a sharding spec that replicates shards over device GROUPS
                # (negative device entries resolved through index_to_device_group_map) and shards a symbolic dimension
                if node is None or not cfgs:
                    continue
                cfg = cfgs[b % len(cfgs)]
                if any(dc.configuration is cfg for dc in node.device_configurations):
                    continue
                io = [v for v in list(node.inputs) + list(node.outputs) if v is not None and v.name]
                io = [v for v in io if v.shape is not None and len(v.shape) > 0]
                if not io:
                    continue
                v = io[c % len(io)]
                members = tuple(sorted({x % cfg.num_devices for x in ((c >> 4) % 5, (c >> 7) % 5)}))
                dim = ir.SymbolicDim("N") if (c >> 10) % 2 else int(v.shape[0]) if isinstance(v.shape[0], int) else ir.SymbolicDim(None)
                spec = ir.ShardingSpec(
                    value=v,
                    device=(-1,) + ((0,) if (c >> 11) % 2 else ()),
                    index_to_device_group_map=(ir.IndexToDeviceGroupMapEntry(key=-1, value=members),),
                    sharded_dims=(ir.ShardedDim(axis=(c >> 12) % len(v.shape), simple_shardings=(ir.SimpleShardedDim(dim=dim, num_shards=1 + (c >> 14) % 3),)),),
                )
                node.device_configurations = tuple(node.device_configurations) + (ir.NodeDeviceConfiguration(configuration=cfg, sharding_specs=(spec,), pipeline_stage=None if (c >> 16) % 2 else (c >> 17) % 3),)
                inc("annotate_direct_group_map")
            elif op in ("stage", "stage_invalid"):
                if node is None or not cfgs:
                    continue
                cfg = cfgs[b % len(cfgs)]
                if op == "stage_invalid":
                    expect_reject = True
                    w = World()
                    w.reg(model)
                    before = snapshot.snapshot(w, tensors=False)
                    node.set_pipeline_stage(cfg, -1 - c % 2)
                else:
                    node.set_pipeline_stage(cfg, c % 4)
                    inc("stage_applied")
            elif op == "rename_value":
                vals = [v for n2 in nodes for v in list(n2.outputs) + [x for x in n2.inputs if x is not None]]
                if not vals:
                    continue
                vals[b % len(vals)].name = fname("rv")
                nontrivial = nontrivial or _annotations(model) >= 3
            elif op == "shadow_rename":
                # a value defined inside a control-flow body takes the name of a value of an enclosing scope
                # (legal: inner names shadow outer ones); references are by identity, so nothing else changes
                owners = [x for x in nodes if any((not a_.is_ref()) and a_.type == ir.AttributeType.GRAPH for a_ in x.attributes.values())]
                if not owners:
                    continue
                owner = owners[a % len(owners)]
                subs = [a_.value for a_ in owner.attributes.values() if (not a_.is_ref()) and a_.type == ir.AttributeType.GRAPH and a_.value is not None]
                sg = subs[b % len(subs)]
                # prefer values of annotated nodes: that is where a by-name reference can go wrong
                inner_vals = [o for x in sg for o in x.outputs if o.name and x.device_configurations] or [o for x in sg for o in x.outputs if o.name]
                og = owner.graph
                if not inner_vals or og is None:
                    continue
                used_inside = {id(i_) for x in sg.all_nodes() for i_ in x.inputs if i_ is not None}
                defined_inside = {id(o) for x in sg.all_nodes() for o in x.outputs} | {id(i_) for i_ in sg.inputs} | {id(i_) for i_ in sg.initializers.values()}
                outer = list(og.inputs) + (list(og.initializers.values()) if hasattr(og, "initializers") else [])
                for x in og:
                    if x is owner:
                        break
                    outer.extend(x.outputs)
                # the serialized form refers to values by name: only an outer value that the body does not use can be shadowed
                inner_names = {o.name for x in sg.all_nodes() for o in x.outputs} | {i_.name for i_ in sg.inputs} | set(sg.initializers)
                outer = [o for o in outer if o.name and id(o) not in used_inside and id(o) not in defined_inside and not o.is_initializer() and o.name not in inner_names]
                if not outer:
                    continue
                v = inner_vals[c % len(inner_vals)]
                n2 = v.producer()
                v.name = outer[(c >> 4) % len(outer)].name
                inc("shadow_rename")
                if n2.device_configurations:
                    inc("reach_shadow_rename_on_annotated_node")
                if c % 2:
                    had = _annotations(model)
                    model = ir.from_proto(ir.to_proto(model))
                    inc("reload")
                    if _annotations(model) != had:
                        viol = ("reload-lost-annotations", f"after a proto round trip the model carries {_annotations(model)} annotations, before {had}")
            elif op == "rename_node":
                if node is None:
                    continue
                node.name = fname("rn")
            elif op == "replace_input":
                if node is None or not node.inputs:
                    continue
                # keep the graph topologically ordered: only values defined before the node are offered
                cands = []
                if node.graph is model.graph:
                    cands = list(model.graph.inputs) + list(model.graph.initializers.values())
                    for n2 in model.graph:
                        if n2 is node:
                            break
                        cands.extend(n2.outputs)
                cands = [v for v in cands if v is not None and v.name]
                repl = None if (c % 7 == 0 or not cands) else cands[c % len(cands)]
                node.replace_input_with(b % len(node.inputs), repl)
                inc("edit_replace_input")
                nontrivial = nontrivial or _annotations(model) >= 3
            elif op == "resize_inputs":
                if node is None:
                    continue
                node.resize_inputs(b % 4)
                inc("edit_resize_inputs")
                nontrivial = nontrivial or _annotations(model) >= 3
            elif op == "resize_outputs":
                if node is None:
                    continue
                keep = len(node.outputs)
                target = b % 4
                # only shrink past unused, non-output values (the valid use of the API)
                while keep > target and not node.outputs[keep - 1].uses() and not node.outputs[keep - 1].is_graph_output():
                    keep -= 1
                node.resize_outputs(max(keep, target) if target > len(node.outputs) else keep)
                for o in node.outputs:
                    if not o.name:
                        o.name = fname("ro")
                inc("edit_resize_outputs")
                nontrivial = nontrivial or _annotations(model) >= 3
            elif op == "clone":
                had = _annotations(model)
                if c % 3 == 1:
                    model = model.clone(deep_copy=True)
                    inc("clone_deep_copy")
                else:
                    model = model.clone()
                inc("clone")
                if had >= 3:
                    inc("reach_clone_with_annotations")
                    nontrivial = True
                if _annotations(model) != had:
                    viol = ("clone-lost-annotations", f"the clone carries {_annotations(model)} annotations, the original {had}")
            elif op == "reload":
                had = _annotations(model)
                model = ir.from_proto(ir.to_proto(model))
                inc("reload")
                if had >= 3:
                    inc("reach_reload_with_annotations")
                    nontrivial = True
                if _annotations(model) != had:
                    viol = ("reload-lost-annotations", f"after a proto round trip the model carries {_annotations(model)} annotations, before {had}")
            elif op == "add_node":
                g = model.graph
                src = [v for v in list(g.inputs) + [o for n2 in g for o in n2.outputs]]
                if not src:
                    continue
                nn = ir.Node("", "Relu", [src[b % len(src)]], name=fname("an"))
                g.append(nn)
                if model.graph.outputs and model.graph.outputs[0].shape is not None:
                    nn.outputs[0].shape = ir.Shape([2, 3])
                nn.outputs[0].type = ir.TensorType(ir.DataType.FLOAT)
        except Exception as e:  # noqa: BLE001
            outcome = "raise:" + type(e).__name__
            if not expect_reject and op not in ("resize_outputs", "resize_inputs", "replace_input"):
                viol = ("valid-request-raised", f"op {i} {op} raised {type(e).__name__}: {str(e)[:300]}")
        else:
            if expect_reject:
                viol = ("invalid-request-accepted", f"op {i} {op}: an invalid annotation request was accepted")
        trace.append((op, outcome))
        inc(("ok_" if outcome == "ok" else "rejected_") + op)
        if expect_reject and before is not None and viol is None:
            after = snapshot.snapshot(w, tensors=False)
            if after != before:
                d = snapshot.diff(before, after)
                viol = ("rejected-request-had-effect", f"op {i} {op} was rejected but changed state: {str(d[:2])[:400]}")
        if viol is None:
            viol = check_invariants(model)
            if viol is not None:
                viol = (viol[0], f"after op {i} {op} ({outcome}): {viol[1]}")
        if viol is None and (op in ("reload", "clone", "rename_value", "shadow_rename", "remove_cfg", "remove_cfg_name") or i % 5 == 4):
            viol = check_serialized(model)
            if viol is not None:
                viol = (viol[0], f"after op {i} {op}: {viol[1]}")
            inc("serialized_checked")
        if viol is not None:
            c2 = copy.deepcopy(case)
            c2["steps"] = case["steps"][: i + 1]
            res["case"] = c2
            res["violation"] = {"clause": viol[0], "detail": viol[1], "key": viol[0]}
            break
    if _check_device_configurations is None:
        inc("library_check_unavailable")
    inc("annotations_at_end", _annotations(model))
    res["steps"] = len(trace)
    res["event_digest"] = digest(trace)
    if res["violation"] is None and nontrivial:
        res["distinct"] = [digest((case["model_seed"], case["params"], trace))]
    res["sample"] = {"params": case["params"], "ops": [f"{t[0]}:{t[1]}" for t in trace][:60]}
    return res


def shrink_candidates(case: dict, violation: dict):
    steps = case["steps"]
    n = len(steps)
    for width in (8, 4, 2, 1):
        for lo in range(0, max(0, n - 1), width):
            hi = min(n - 1, lo + width)
            if hi <= lo:
                continue
            c = copy.deepcopy(case)
            c["steps"] = steps[:lo] + steps[hi:]
            yield c
    for key, vals in (("n_nodes", [1, 2]), ("n_functions", [0]), ("depth", [0]), ("n_inits", [0]), ("n_inputs", [1])):
        for val in vals:
            if case["params"].get(key, 0) > val:
                c = copy.deepcopy(case)
                c["params"][key] = val
                yield c


def finding_key(case: dict, violation: dict) -> str:
    return violation.get("key") or violation.get("clause")


def check_reach(agg: dict, tier: str):
    st = agg["stats"]
    need = ["shard_applied", "stage_applied", "rejected_shard_invalid", "rejected_stage_invalid", "cfg_removed_with_cascade", "reach_clone_with_annotations", "reach_reload_with_annotations", "edit_replace_input", "edit_resize_outputs", "serialized_checked"]
    missing = [k for k in need if not st.get(k)]
    if st.get("library_check_unavailable"):
        missing.append("library check import failed")
    return missing if agg["runs"] > 300 else []
