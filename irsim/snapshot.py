"""Canonical snapshot of every reachable IR object, through public accessors only.

The result is plain data keyed by registry reference; two snapshots are equal
iff every observable property of every reachable object is the same (object
identities included, through registry indices).
"""

from __future__ import annotations

import dataclasses

import onnx_ir as ir

from irsim.world import World


def _type_repr(w: World, t):
    if t is None:
        return None
    try:
        inner = t.elem_type
    except Exception:  # noqa: BLE001
        inner = None
    if isinstance(inner, ir.DataType) or inner is None:
        return (type(t).__name__, int(t.dtype) if t.dtype is not None else None, getattr(t, "denotation", None), w.ident(t))
    return (type(t).__name__, _type_repr(w, inner), getattr(t, "denotation", None), w.ident(t))


def _dim_repr(d):
    if isinstance(d, int):
        return d
    v = getattr(d, "value", None)
    return ("sym", v)


def _shape_repr(w: World, s):
    if s is None:
        return None
    dims = tuple(_dim_repr(d) for d in s.dims)
    try:
        den = tuple(s.get_denotation(i) for i in range(len(dims)))
    except Exception:  # noqa: BLE001
        den = None
    return (dims, den, bool(getattr(s, "frozen", False)), w.ident(s))


def _meta_repr(w: World, obj):
    try:
        mp = obj.metadata_props
        me = obj.meta
    except Exception:  # noqa: BLE001
        return None
    # entries with their validity marks (MetadataStore.invalidate / is_valid are public)
    keys = sorted({str(k) for k in dict(me)} | {"trace", "cfg", "analysis"})
    me_items = tuple((k, repr(me.get(k)) if k in me else "<absent>", bool(me.is_valid(k))) for k in keys if k in me or not me.is_valid(k))
    return (tuple(mp.items()), w.ident(mp), me_items, w.ident(me))


def _attr_repr(w: World, a):
    if not isinstance(a, ir.Attr):
        return ("non-attr", repr(type(a)))
    t = a.type
    try:
        if a.is_ref():
            val = ("ref", a.ref_attr_name)
        elif t == ir.AttributeType.GRAPH:
            val = w.ref(a.value)
        elif t == ir.AttributeType.GRAPHS:
            val = tuple(w.ref(g) for g in a.value)
        elif t == ir.AttributeType.TENSOR:
            val = ("tensor", w.ident(a.value))
        elif t == ir.AttributeType.TENSORS:
            val = tuple(w.ident(x) for x in a.value)
        else:
            v = a.value
            val = tuple(v) if isinstance(v, (list, tuple)) else v
            val = repr(val)
    except Exception as e:  # noqa: BLE001
        val = ("error", type(e).__name__)
    return (a.name, int(t), val, a.doc_string, w.ident(a))


def _dc(w: World, x):
    """Structural form of the frozen multi-device records (values and configurations by identity)."""
    if isinstance(x, ir.Value):
        return w.ref(x)
    if isinstance(x, ir.ModelConfiguration):
        return ("cfg", w.ident(x), x.name, x.num_devices, tuple(x.device_names))
    if dataclasses.is_dataclass(x) and not isinstance(x, type):
        return (type(x).__name__,) + tuple((f.name, _dc(w, getattr(x, f.name))) for f in dataclasses.fields(x))
    if isinstance(x, (tuple, list)):
        return tuple(_dc(w, y) for y in x)
    if isinstance(x, ir.SymbolicDim):
        return ("sym", x.value)
    if isinstance(x, (int, str, float, bool)) or x is None:
        return x
    return repr(type(x))


def _devconf_repr(w: World, n):
    return _dc(w, tuple(getattr(n, "device_configurations", ()) or ()))


def snap_value(w: World, v) -> tuple:
    return (
        v.name,
        _type_repr(w, v.type),
        _shape_repr(w, v.shape),
        w.ident(v.const_value) if v.const_value is not None else None,
        v.doc_string,
        _meta_repr(w, v),
        w.ref(v.producer()),
        v.index(),
        tuple((w.ref(u.node), u.idx) for u in v.uses()),
        tuple(w.ref(c) for c in v.consumers()),
        v.is_graph_input(),
        v.is_graph_output(),
        v.is_initializer(),
        w.ref(v.graph),
    )


VALUE_FIELDS = ("name", "type", "shape", "const_value", "doc_string", "metadata", "producer", "index", "uses", "consumers", "is_graph_input", "is_graph_output", "is_initializer", "graph")


def snap_node(w: World, n) -> tuple:
    return (
        n.name,
        n.domain,
        n.op_type,
        n.overload,
        n.version,
        n.doc_string,
        tuple(w.ref(x) for x in n.inputs),
        tuple(w.ref(x) for x in n.outputs),
        tuple((k, _attr_repr(w, a)) for k, a in n.attributes.items()),
        w.ref(n.graph),
        _meta_repr(w, n),
        _devconf_repr(w, n),
        tuple(w.ref(p) for p in n.predecessors()),
        tuple(w.ref(s) for s in n.successors()),
    )


NODE_FIELDS = ("name", "domain", "op_type", "overload", "version", "doc_string", "inputs", "outputs", "attributes", "graph", "metadata", "device_configurations", "predecessors", "successors")


def _na_repr(g):
    na = getattr(g, "_name_authority", None)
    if na is None:
        return None
    return (getattr(na, "_value_counter", None), getattr(na, "_node_counter", None), tuple(sorted(getattr(na, "_value_names", ()) or ())), tuple(sorted(getattr(na, "_node_names", ()) or ())))


def snap_graph(w: World, g) -> tuple:
    return (
        g.name,
        tuple(w.ref(n) for n in g),
        len(g),
        tuple(w.ref(v) for v in g.inputs),
        tuple(w.ref(v) for v in g.outputs),
        tuple((k, w.ref(v)) for k, v in g.initializers.items()),
        g.doc_string,
        tuple(g.opset_imports.items()),
        _meta_repr(w, g),
        _na_repr(g),
    )


GRAPH_FIELDS = ("name", "nodes", "len", "inputs", "outputs", "initializers", "doc_string", "opset_imports", "metadata", "name_authority")


def snap_function(w: World, f) -> tuple:
    return (
        f.domain,
        f.name,
        f.overload,
        w.ref(f.graph),
        tuple((k, _attr_repr(w, a)) for k, a in f.attributes.items()),
        tuple(w.ref(v) for v in f.inputs),
        tuple(w.ref(v) for v in f.outputs),
        f.doc_string,
        tuple(f.opset_imports.items()),
        _meta_repr(w, f),
    )


FUNCTION_FIELDS = ("domain", "name", "overload", "graph", "attributes", "inputs", "outputs", "doc_string", "opset_imports", "metadata")


def snap_model(w: World, m) -> tuple:
    dcs = _dc(w, tuple(getattr(m, "device_configurations", ()) or ()))
    return (
        w.ref(m.graph),
        m.ir_version,
        m.producer_name,
        m.producer_version,
        m.domain,
        m.model_version,
        m.doc_string,
        tuple((k, w.ref(f)) for k, f in m.functions.items()),
        tuple(m.opset_imports.items()),
        _meta_repr(w, m),
        tuple(dcs),
    )


MODEL_FIELDS = ("graph", "ir_version", "producer_name", "producer_version", "domain", "model_version", "doc_string", "functions", "opset_imports", "metadata", "device_configurations")


def snap_tensor(w: World, t) -> tuple:
    try:
        return (type(t).__name__, t.name, int(t.dtype), tuple(_dim_repr(d) for d in t.shape.dims))
    except Exception as e:  # noqa: BLE001
        return (type(t).__name__, "error", type(e).__name__)


def snapshot(w: World, *, tensors: bool = True) -> dict:
    w.close()
    out = {}
    # the registry may grow while snapshotting (references register new objects): loop until stable
    done = {"g": 0, "n": 0, "v": 0, "f": 0, "m": 0, "t": 0}
    while True:
        progressed = False
        for kind, lst, fn in (("m", w.models, snap_model), ("f", w.functions, snap_function), ("g", w.graphs, snap_graph), ("n", w.nodes, snap_node), ("v", w.values, snap_value)):
            while done[kind] < len(lst):
                i = done[kind]
                done[kind] += 1
                progressed = True
                try:
                    out[(kind, i)] = fn(w, lst[i])
                except Exception as e:  # noqa: BLE001
                    # a public accessor of a reachable object raises (state damaged by a rejected call): that is an
                    # observable difference, not a harness failure
                    out[(kind, i)] = (("accessor-raised", type(e).__name__),) + tuple(None for _ in range(len(FIELDS[kind]) - 1))
        if tensors:
            while done["t"] < len(w.tensors):
                i = done["t"]
                done["t"] += 1
                progressed = True
                out[("t", i)] = snap_tensor(w, w.tensors[i])
        if not progressed:
            break
    return out


FIELDS = {"v": VALUE_FIELDS, "n": NODE_FIELDS, "g": GRAPH_FIELDS, "f": FUNCTION_FIELDS, "m": MODEL_FIELDS, "t": ("class", "name", "dtype", "shape")}


def diff(a: dict, b: dict) -> list[tuple]:
    """List of (ref, field, before, after) differences (objects only in b are 'new')."""
    out = []
    for key in a:
        if key not in b:
            out.append((key, "<object vanished>", None, None))
            continue
        x, y = a[key], b[key]
        if x == y:
            continue
        names = FIELDS[key[0]]
        for i, (p, q) in enumerate(zip(x, y)):
            if p != q:
                out.append((key, names[i] if i < len(names) else str(i), p, q))
    return out
