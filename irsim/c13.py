"""C13 — clones are faithful and fully independent of their originals (two replicas).

A generated model is cloned (Model.clone, Graph.clone with/without outer-scope
values, Function.clone, GraphView.clone, functionalize(pass)); then a seeded
edit history is routed op by op to the original or the clone; after every op
the replica that was not addressed must be unchanged.  See DESIGN.md section 6 (C13).
"""

from __future__ import annotations

import copy
import logging
import random

import numpy as np
import onnx_ir as ir
import onnx_ir.passes.common as common_passes
from onnx_ir.passes import functionalize

from irsim import modelgen, ops, snapshot
from irsim.world import World
from simcore import knobs as _knobs
from simcore.prng import Streams, digest

logging.getLogger("onnx_ir").setLevel(logging.ERROR)

PROPERTY = "C13"
LEVEL = "exploration"
ops.AVOID_NODE_OUTPUTS_ON_GRAPH_INPUTS = True
TIERS = {
    "quick": {"max_runs": 3000, "optimize_runs": 600, "wall": 420, "optimize_wall": 180, "chunk": 40, "shrink_budget": 300, "shrink_wall": 60},
    "thorough": {"wall": 600, "optimize_wall": 90, "chunk": 100, "shrink_budget": 600, "shrink_wall": 240},
}
RULE = (
    "each run = one seeded well-formed model (nested subgraphs capturing outer values, functions, shared values, metadata, doc strings, "
    "typed/untyped, sorted/unsorted, optional device annotations) x one clone operation (Model/Graph/Function/GraphView clone, deep_copy on/off, "
    "subgraph clone with or without allow_outer_scope_values, functionalize over 8 passes) followed, for closed clones, by 10-40 Engine A "
    "edit ops each routed by the seeded scheduler to the original or the clone; distinct = digest of (model spec, clone kind, routed op "
    "sequence); non-trivial = the clone succeeded and at least 5 edits were applied to each side or a functionalized pass modified its copy"
)
ASSUMPTIONS = [
    "tensors, non-graph Attr objects and ModelConfiguration records may be shared between clone and original (per the statement); tensor-internal fields (a shared tensor's own name) are excluded from the isolation snapshot",
    "meta values are shared by reference unless deep_copy=True (documented); the isolation check therefore does not mutate objects stored inside meta",
    "opset_imports is not in the statement's list of independent parts and is not edited",
    "the edit phase is skipped for subgraph clones that legitimately share captured outer values",
]
REAL_STUB = {"real": ["onnx_ir._cloner", "Model/Graph/Function/GraphView.clone", "passes.functionalize and the wrapped passes", "serde.to_proto"], "stub": [], "harness_extension_points": []}

CLONE_KINDS = ["model", "model_deep", "graph", "graph_deep", "function", "function_deep", "view", "view_deep", "view_partial", "view_partial_deep", "functionalize", "subgraph_outer_allowed", "subgraph_outer_forbidden", "subgraph_outer_allowed_refused", "subgraph_outer_allowed_uncopyable"]
PASSES = ["RemoveUnusedNodesPass", "IdentityEliminationPass", "NameFixPass", "TopologicalSortPass", "CommonSubexpressionEliminationPass", "DeduplicateInitializersPass", "LiftConstantsToInitializersPass", "InlinePass", "ClearMetadataAndDocStringPass", "OutputFixPass"]
def _composition(run_seed: int):
    cr = Streams(run_seed).rng("functionalize-composition")
    if cr.random() < 0.5:
        return None
    return {"checker_first": cr.random() < 0.7, "others": [[cr.choice(PASSES), cr.random() < 0.4] for _ in range(cr.choice([1, 2]))], "steps": cr.choice([1, 2]), "manager": cr.random() < 0.5}


EDIT_WEIGHTS = {
    "replace_input": 8, "resize_inputs": 2, "resize_outputs": 2, "rauw": 4, "value_name": 6, "value_attrs": 14, "node_attrs": 8, "rename_values": 3,
    "append": 2, "remove": 4, "insert_before": 2, "new_value": 2, "new_node": 3, "io_append": 2, "io_setitem": 2, "io_delitem": 2, "io_pop": 1,
    "init_setitem": 2, "init_delitem": 2, "init_pop": 1, "sort": 1, "extend": 1, "meta_mutate": 6,
}  # fmt: skip


def gen_case(run_seed: int, tier: str, index: int = 0) -> dict:
    r = Streams(run_seed).rng("workload")
    params = dict(
        p_graphs=Streams(run_seed).rng("graphs-attr").choice([0.0, 0.0, 0.12, 0.25]), ref_graph_attrs=Streams(run_seed).rng("ref-graph-attrs").choice([0.0, 0.0, 0.6]), more_ops=Streams(run_seed).rng("more-ops").random() < 0.5, n_nodes=r.choice([1, 3, 5, 8, 12]), n_inputs=r.choice([0, 1, 2]), n_inits=r.choice([0, 1, 2, 3]), n_outputs=r.choice([1, 2]),
        n_functions=r.choice([0, 1, 2]), depth=r.choice([0, 1, 2]), typed=r.random() < 0.7, unsorted=r.random() < 0.2, p_if=r.choice([0.15, 0.35]),
        metadata=r.random() < 0.6, init_as_input=r.choice([0.0, 0.4]), ir_version=r.choice([10, 11]), name_style=r.choice([0, 0, 1]),
    )  # fmt: skip
    kind = r.choice(CLONE_KINDS)
    if kind != "subgraph_outer_allowed":
        # the cloner documents that nodes are expected in topological order; an unsorted graph is rejected with an
        # error, which is not a silent fault.  Unsorted order is kept only where the clone silently succeeds.
        params["unsorted"] = False
    edits = ops.gen_ops(r, r.choice([10, 20, 40]), names=list(EDIT_WEIGHTS), weights=EDIT_WEIGHTS)
    route = [r.randrange(2) for _ in edits]
    return {"property": PROPERTY, "warnings_error": _knobs.warnings_knob(run_seed), "run_seed": run_seed, "model_seed": r.randrange(1 << 30), "params": params, "clone": kind, "pass": r.choice(PASSES), "composition": _composition(run_seed), "devices": r.random() < 0.3, "edits": edits, "route": route, "meta_noise": r.random() < 0.5, "nested_types": r.choice([0, 0, 1, 2, 3])}


def _aux_ids(w: World, deep: bool = False) -> dict:
    """Identities of the mutable sub-objects that must not be shared."""
    out = {}
    if deep:
        for kind_, objs in (("v", w.values), ("n", w.nodes), ("g", w.graphs)):
            for i, x in enumerate(objs):
                for key in ("trace", "cfg"):
                    o = x.meta.get(key)
                    if isinstance(o, (list, dict)):
                        out[id(o)] = (f"meta[{key!r}] object", (kind_, i))

    def add(kind, obj, owner):
        if obj is not None:
            out[id(obj)] = (kind, owner)

    for i, v in enumerate(w.values):
        add("shape", v.shape, ("v", i))
        t = v.type
        depth = 0
        while t is not None and depth < 8:
            add("type" if depth == 0 else "nested type", t, ("v", i))
            nxt = getattr(t, "elem_type", None)
            t = nxt if (nxt is not None and not isinstance(nxt, ir.DataType)) else None
            depth += 1
        add("metadata_props", v.metadata_props, ("v", i))
        add("meta", v.meta, ("v", i))
    for i, n in enumerate(w.nodes):
        add("metadata_props", n.metadata_props, ("n", i))
        add("meta", n.meta, ("n", i))
        add("attributes", n.attributes, ("n", i))
    for i, g in enumerate(w.graphs):
        add("metadata_props", g.metadata_props, ("g", i))
        add("meta", g.meta, ("g", i))
        add("inputs", g.inputs, ("g", i))
        add("outputs", g.outputs, ("g", i))
        add("initializers", g.initializers, ("g", i))
    for i, m in enumerate(w.models):
        add("metadata_props", m.metadata_props, ("m", i))
        add("meta", m.meta, ("m", i))
        add("functions", m.functions, ("m", i))
    return out


def _main_ids(w: World) -> dict:
    out = {}
    for kind, lst in (("g", w.graphs), ("n", w.nodes), ("v", w.values), ("f", w.functions), ("m", w.models)):
        for i, o in enumerate(lst):
            out[id(o)] = (kind, i)
    return out


def _proto_bytes(obj) -> bytes | None:
    try:
        return ir.to_proto(obj).SerializeToString(deterministic=True)
    except Exception:  # noqa: BLE001
        return None


def _internal_objects(g) -> dict:
    """Graphs, nodes and values that belong to graph g itself (recursively through nested graphs)."""
    internal: dict = {}

    def walk(gr):
        internal[id(gr)] = ("g", gr.name)
        for v in list(gr.inputs) + list(gr.outputs) + list(gr.initializers.values()):
            if v.producer() is None or v.producer().graph is gr:
                internal.setdefault(id(v), ("v", v.name))
        for n in gr:
            internal[id(n)] = ("n", n.name)
            for o in n.outputs:
                internal[id(o)] = ("v", o.name)
            for a in n.attributes.values():
                if a.type == ir.AttributeType.GRAPH and a.value is not None:
                    walk(a.value)
                elif a.type == ir.AttributeType.GRAPHS and a.value is not None:
                    for sg in a.value:
                        walk(sg)

    walk(g)
    return internal


def _tensor_states(model, extra=()) -> dict:
    """Own fields of every tensor object the model reaches (a clone may share these objects; it never writes them)."""
    out: dict = {}

    def add(t, where):
        if t is None or id(t) in out:
            return
        try:
            st = (t.name, t.doc_string, tuple(sorted((t.metadata_props or {}).items())), int(t.dtype), tuple(str(d) for d in t.shape.dims))
        except Exception as e:  # noqa: BLE001
            st = ("unreadable", type(e).__name__)
        out[id(t)] = (where, st, t)

    def attrs(owner, mapping):
        for a in mapping.values():
            if a.is_ref() or a.value is None:
                continue
            if a.type == ir.AttributeType.TENSOR:
                add(a.value, f"{owner}.{a.name}")
            elif a.type == ir.AttributeType.TENSORS:
                for t in a.value:
                    add(t, f"{owner}.{a.name}[]")

    for top in [model.graph] + [f.graph for f in model.functions.values()]:
        for g in [top] + list(top.subgraphs()):
            for v in list(g.inputs) + list(g.initializers.values()):
                add(v.const_value, f"value {v.name!r}")
            for n in g:
                attrs(f"node {n.name!r}", n.attributes)
                for o in n.outputs:
                    add(o.const_value, f"output {o.name!r}")
    for f in model.functions.values():
        attrs(f"function {f.name!r}", f.attributes)
    for t in extra:  # tensors that an edit may have made unreachable from the model (they can still be shared)
        add(t, "a Constant attribute tensor that is also its output's const_value")
    return out


def _tensors_changed(before: dict) -> str | None:
    for where, st, t in before.values():
        try:
            now = (t.name, t.doc_string, tuple(sorted((t.metadata_props or {}).items())), int(t.dtype), tuple(str(d) for d in t.shape.dims))
        except Exception as e:  # noqa: BLE001
            now = ("unreadable", type(e).__name__)
        if now != st:
            return f"tensor at {where}: {st} -> {now}"
    return None


def _only_shared_attribute_tensor_renamed(before: dict, planted: set, serialize, proto_before) -> bool:
    """True iff the only difference is the *name* of tensor objects that are at once a Constant node's attribute and
    the const_value of its output (renaming that output - here or in a copy sharing the tensor - renames the tensor):
    putting the names back restores the serialized form exactly.  (Recorded finding, see known_findings.json.)"""
    changed = []
    for where, st, t in before.values():
        try:
            now = (t.name, t.doc_string, tuple(sorted((t.metadata_props or {}).items())), int(t.dtype), tuple(str(d) for d in t.shape.dims))
        except Exception:  # noqa: BLE001
            return False
        if now != st:
            if now[1:] != st[1:]:
                return False
            if id(t) in planted:
                changed.append((t, st[0]))
            # (the name of any other shared tensor - an initializer's - may follow its value's name: initializers are
            # written under the value's name, so that cannot show in the serialized form; if it does, the comparison
            # below fails and the difference is reported as an ordinary violation)
    if not changed:
        return False
    for t, name in changed:
        t.name = name
    return serialize() == proto_before


def _find_subgraph_with_outer(model):
    for n in model.graph.all_nodes():
        for a in n.attributes.values():
            if a.type == ir.AttributeType.GRAPH and a.value is not None:
                sg = a.value
                inner = _internal_objects(sg)
                outer = [v for x in sg.all_nodes() for v in x.inputs if v is not None and id(v) not in inner]
                outer += [v for v in sg.outputs if id(v) not in inner]
                if outer:
                    return sg, outer
    return None, []


def run_case(case: dict) -> dict:
    with _knobs.interpreter(case):
        return _run_case(case)


def _run_case(case: dict) -> dict:
    stats: dict = {}
    res = {"violation": None, "error": None, "stats": stats, "steps": 0, "distinct": [], "states": [], "case": case}

    def inc(k, n=1):
        stats[k] = stats.get(k, 0) + n

    def viol(clause, detail, key=None):
        if res["violation"] is None:
            res["violation"] = {"clause": clause, "detail": detail[:900], "key": key or clause}

    rng = random.Random(case["model_seed"])
    model = modelgen.gen_model(rng, modelgen.Params(**case["params"]))
    if case.get("meta_noise"):
        for v in list(model.graph.inputs) + [o for n in model.graph for o in n.outputs][:3]:
            v.meta["analysis"] = 7
            v.metadata_props["note"] = "n"
        # mutable objects in .meta at every depth (graphs, nodes, values; control-flow bodies; function bodies):
        # a deep copy must not share them
        k = 0
        tops = [model.graph] + [f.graph for f in model.functions.values()]
        for top in tops:
            graphs_ = [top] + [sg for n in top.all_nodes() for a_ in n.attributes.values() if not a_.is_ref() and a_.type in (ir.AttributeType.GRAPH, ir.AttributeType.GRAPHS) for sg in ([a_.value] if a_.type == ir.AttributeType.GRAPH else list(a_.value))]
            for g_ in graphs_:
                for x in [g_] + list(g_) + [o for n in g_ for o in n.outputs] + list(g_.inputs):
                    k += 1
                    if k % 2:
                        x.meta["trace"] = [k]
                        x.meta["cfg"] = {"k": [k]}
                        inc("mutable_meta_objects")
    if case.get("devices") and case["params"].get("ir_version", 10) >= 11:
        try:
            cfg = model.add_device_configuration("cfg0", num_devices=2)
            cfg2 = model.add_device_configuration("cfg1", num_devices=3)
            for i, n in enumerate(list(model.graph)[:4]):
                tgt = n.outputs[0]
                if tgt.shape is not None and len(tgt.shape) > 0:
                    n.shard(tgt, configuration=cfg, axis=0, num_shards=2)
                    inc("device_annotations")
                    # several configurations per node, in both orders, with and without sharding specs
                    if i % 3 == 0:
                        n.set_pipeline_stage(cfg2, 1)
                    elif i % 3 == 1:
                        n.shard(tgt, configuration=cfg2, axis=-1, num_shards=3)
                elif i % 2:
                    n.set_pipeline_stage(cfg2, 0)
        except Exception:  # noqa: BLE001
            pass
    if case.get("nested_types"):
        # sequence / optional typed values: their type objects nest other (mutable) type objects
        pool = list(model.graph.inputs) + [o for n in model.graph.all_nodes() for o in n.outputs]
        for f in model.functions.values():
            pool += list(f.inputs) + [o for n in f for o in n.outputs]
        for i, v in enumerate(pool):
            if i % 3 == case["nested_types"] % 3:
                inner = ir.TensorType(ir.DataType.FLOAT)
                v.type = ir.SequenceType(inner) if i % 2 else ir.OptionalType(ir.SequenceType(inner))
                inc("nested_typed_values")
    planted: set = set()
    planted_objs: list = []
    if Streams(case["run_seed"]).rng("const-outputs").random() < 0.5:
        # what constant propagation leaves behind: node outputs that know their constant tensor - the very tensor object
        # the Constant node's attribute holds, under its own name (tensors may be shared with a clone, never written)
        tops = [model.graph] + [f.graph for f in model.functions.values()]
        for top in tops:
            for n in top.all_nodes():
                a_ = n.attributes.get("value")
                if n.op_type == "Constant" and a_ is not None and not a_.is_ref() and a_.type == ir.AttributeType.TENSOR and n.outputs:
                    n.outputs[0].const_value = a_.value
                    planted.add(id(a_.value))
                    planted_objs.append(a_.value)
                    inc("const_valued_node_outputs")
    ur = Streams(case["run_seed"]).rng("unnamed")
    if ur.random() < 0.3:
        # names taken away again after the graph assigned them (legal: node names and the names of unused values are
        # optional) - a faithful copy is unnamed in the same places
        for top in [model.graph] + [f.graph for f in model.functions.values()]:
            for n in top.all_nodes():
                if ur.random() < 0.3:
                    n.name = None
                    inc("unnamed_nodes")
                for o in n.outputs:
                    if not o.uses() and not o.is_graph_output() and ur.random() < 0.5:
                        kept = o.const_value.name if o.const_value is not None else None
                        o.name = None
                        inc("unnamed_unused_outputs")
                        if o.const_value is not None and ur.random() < 0.6:
                            # ... while the constant it carries keeps (gets back) a name of its own
                            o.const_value.name = kept or "kept_tensor_name"
                            inc("unnamed_outputs_with_named_constant")
    if model.functions and Streams(case["run_seed"]).rng("function-default-graphs").random() < 0.4:
        # a function attribute parameter whose DEFAULT value is a graph (legal: attribute_proto of the FunctionProto)
        for fi, f in enumerate(model.functions.values()):
            k = ir.Node("", "Constant", [], [ir.AttrTensor("value", ir.Tensor(np.full((2, 3), 1.0 + fi, dtype=np.float32), name=f"dflt_t{fi}"))], name=f"dflt_n{fi}")
            k.outputs[0].name = f"dflt_v{fi}"
            k.outputs[0].type = ir.TensorType(ir.DataType.FLOAT)
            k.outputs[0].shape = ir.Shape([2, 3])
            body = ir.Graph([], [k.outputs[0]], nodes=[k], name=f"dflt_body{fi}")
            if fi % 2:
                f.attributes["dflt_bodies"] = ir.AttrGraphs("dflt_bodies", [body])
            else:
                f.attributes["dflt_body"] = ir.AttrGraph("dflt_body", body)
            inc("function_default_graphs")
    kind = case["clone"]
    inc("clone_" + kind)
    tensors0 = _tensor_states(model)
    proto0 = _proto_bytes(model)
    # the original as it is before anything is cloned: cloning (accepted or refused) never changes it
    w0 = World()
    w0.reg(model)
    w0.close()
    snap0 = snapshot.snapshot(w0, tensors=False)
    original_obj = model
    clone_obj = None
    allowed_shared: set = set()
    closed = True
    trace = []
    try:
        if kind in ("model", "model_deep"):
            clone_obj = model.clone(deep_copy=kind.endswith("deep"))
        elif kind in ("graph", "graph_deep"):
            original_obj = model.graph
            clone_obj = model.graph.clone(deep_copy=kind.endswith("deep"))
        elif kind in ("function", "function_deep"):
            if not model.functions:
                inc("skipped_no_function")
                return res
            original_obj = list(model.functions.values())[0]
            clone_obj = original_obj.clone(deep_copy=True) if kind == "function_deep" else original_obj.clone()
        elif kind in ("view", "view_deep"):
            g = model.graph
            original_obj = ir.GraphView(list(g.inputs), list(g.outputs), nodes=list(g), initializers=list(g.initializers.values()), name=g.name, opset_imports=dict(g.opset_imports), doc_string=g.doc_string)
            clone_obj = original_obj.clone(deep_copy=True) if kind == "view_deep" else original_obj.clone()
        elif kind in ("view_partial", "view_partial_deep"):
            # a view over the first nodes only that nevertheless lists, as an output, a value produced by a node
            # left out of it (and not declared as an input): not self-contained, a clone must refuse it clearly
            g = model.graph
            nodes_ = list(g)
            if len(nodes_) < 2:
                inc("skipped_small_graph")
                return res
            cut = 1 + case["model_seed"] % (len(nodes_) - 1)
            inside, outside = nodes_[:cut], nodes_[cut:]
            outs_ = [o for o in inside[-1].outputs[:1]] + [o for o in outside[-1].outputs[:1]]
            view = ir.GraphView(list(g.inputs), outs_, nodes=inside, initializers=list(g.initializers.values()), name=g.name, opset_imports=dict(g.opset_imports))
            try:
                view.clone(deep_copy=True) if kind.endswith("_deep") else view.clone()
            except Exception as e:  # noqa: BLE001 - the expected outcome
                inc("partial_view_rejected")
                trace.append(("clone", "rejected", type(e).__name__))
            else:
                viol("outer-capture-not-rejected", "GraphView.clone() returned although one of the view's outputs is produced outside the view and is not one of its inputs", key="outer-capture-not-rejected|" + kind)
                return res
            snap_after = snapshot.snapshot(w0, tensors=False)
            if snap_after != snap0:
                d = snapshot.diff(snap0, snap_after)
                viol("clone-changed-the-original", f"view_partial: the refused clone changed the original: {str(d[:2])[:400]}", key="clone-changed-the-original|" + kind)
            res["event_digest"] = digest(trace)
            res["distinct"] = [digest((case["model_seed"], kind))]
            return res
        elif kind == "functionalize":
            pass
        else:
            sg, outer = _find_subgraph_with_outer(model)
            if sg is None:
                inc("skipped_no_outer_capture")
                return res
            original_obj = sg
            closed = False
            if kind == "subgraph_outer_allowed_uncopyable":
                # a deep copy that fails half-way through a node: something in .meta (of a node or of one of its outputs)
                # cannot be copied - after the cloner has built nodes that read outer values
                import threading as _threading

                sg_nodes = list(sg)
                if not sg_nodes:
                    inc("skipped_empty_subgraph")
                    return res
                victim = sg_nodes[case["model_seed"] % len(sg_nodes)]
                (victim if case["model_seed"] % 2 else victim.outputs[0]).meta["uncopyable"] = _threading.Lock()
                w0.close()
                snap_b = snapshot.snapshot(w0, tensors=False)
                try:
                    sg.clone(allow_outer_scope_values=True, deep_copy=True)
                except Exception as e:  # noqa: BLE001
                    inc("outer_allowed_deep_clone_failed_half_way")
                    trace.append(("clone", "rejected", type(e).__name__))
                else:
                    inc("outer_allowed_deep_clone_of_uncopyable_meta_accepted")
                    res["event_digest"] = digest(trace)
                    return res
                snap_a = snapshot.snapshot(w0, tensors=False)
                if snap_a != snap_b:
                    d = snapshot.diff(snap_b, snap_a)
                    viol("clone-changed-the-original", f"{kind}: the failed clone changed the original: {str(d[:2])[:400]}", key=f"clone-changed-the-original|{kind}")
                res["event_digest"] = digest(trace)
                res["distinct"] = [digest((case["model_seed"], kind))]
                return res
            if kind == "subgraph_outer_allowed_refused":
                # the subgraph additionally lists an output that nothing defines: cloning it is refused (the value belongs to
                # the original subgraph) - after the cloner has already copied nodes that read outer values
                sg.outputs.append(ir.Value(name="not_defined_anywhere"))
                w0.close()
                snap_b = snapshot.snapshot(w0, tensors=False)
                try:
                    sg.clone(allow_outer_scope_values=True)
                except Exception as e:  # noqa: BLE001
                    inc("outer_allowed_clone_refused")
                    trace.append(("clone", "rejected", type(e).__name__))
                else:
                    inc("outer_allowed_clone_with_undefined_output_accepted")
                    res["event_digest"] = digest(trace)
                    return res
                snap_a = snapshot.snapshot(w0, tensors=False)
                if snap_a != snap_b:
                    d = snapshot.diff(snap_b, snap_a)
                    viol("clone-changed-the-original", f"{kind}: the refused clone changed the original: {str(d[:2])[:400]}", key=f"clone-changed-the-original|{kind}")
                res["event_digest"] = digest(trace)
                res["distinct"] = [digest((case["model_seed"], kind))]
                return res
            if kind == "subgraph_outer_allowed":
                clone_obj = sg.clone(allow_outer_scope_values=True)
                allowed_shared = {id(v) for v in outer}
            else:
                try:
                    sg.clone(allow_outer_scope_values=False)
                except Exception as e:  # noqa: BLE001 - a clear error is the expected outcome
                    inc("outer_capture_rejected")
                    trace.append(("clone", "rejected", type(e).__name__))
                    res["event_digest"] = digest(trace)
                    res["distinct"] = [digest((case["model_seed"], kind))]
                    return res
                viol("outer-capture-not-rejected", "Graph.clone(allow_outer_scope_values=False) returned although the subgraph captures outer-scope values")
                return res
    except Exception as e:  # noqa: BLE001
        unsorted = case["params"].get("unsorted")
        viol("clone-raised", f"{kind} clone raised {type(e).__name__}: {str(e)[:300]} / cause: {str(e.__cause__)[:300]}", key=f"clone-raised|{kind}|unsorted={unsorted}")
        return res
    if kind != "functionalize" and closed:
        # (a clone that captures outer values adds its nodes to those values' consumers by design)
        snap_after = snapshot.snapshot(w0, tensors=False)
        if snap_after != snap0:
            d = snapshot.diff(snap0, snap_after)
            viol("clone-changed-the-original", f"{kind}: cloning changed the original: {str(d[:2])[:400]}", key=f"clone-changed-the-original|{kind}")
            return res
    if kind != "functionalize":
        tc = _tensors_changed(tensors0)
        if tc is not None:
            viol("clone-changed-the-original", f"{kind}: cloning wrote to a tensor of the original: {tc}", key=f"clone-changed-the-original|{kind}|tensor")
            return res
        if proto0 is not None and _proto_bytes(model) != proto0:
            viol("clone-changed-the-original", f"{kind}: the original serializes differently after it was cloned", key=f"clone-changed-the-original|{kind}|proto")
            return res
    w1 = World()
    w1.reg(model if kind != "view" else model)
    w1.close()
    # ------------------------------------------------------------- functionalize
    if kind == "functionalize":
        before = snapshot.snapshot(w1, tensors=False)
        pb = _proto_bytes(model)
        p = getattr(common_passes, case["pass"])()
        comp = case.get("composition")
        if comp:
            # functionalize(<composition>): a pass that only inspects the model first (CheckerPass), then in-place passes
            # and already functionalized ones
            import onnx_ir.passes as _passes

            members = [common_passes.CheckerPass()] if comp["checker_first"] else []
            members.append(p)
            for nm, wrap in comp["others"]:
                q = getattr(common_passes, nm)()
                members.append(functionalize(q) if wrap else q)
            p = _passes.PassManager(members, steps=comp["steps"], early_stop=True) if comp["manager"] else _passes.Sequential(*members)
            inc("functionalize_composition")
        try:
            result = functionalize(p)(model)
        except Exception as e:  # noqa: BLE001
            result = None
            inc("functionalized_pass_raised")
            trace.append(("functionalize", case["pass"], "raise", type(e).__name__))
        after = snapshot.snapshot(w1, tensors=False)
        if after != before:
            d = snapshot.diff(before, after)
            viol("functionalize-altered-input", f"functionalize({case['pass']}) changed its input model: {str(d[:2])[:500]}", key=f"functionalize-altered-input|{case['pass']}")
            return res
        if pb is not None and _proto_bytes(model) != pb:
            if _only_shared_attribute_tensor_renamed(tensors0, planted, lambda: _proto_bytes(model), pb):
                viol("functionalize-altered-input", f"functionalize({case['pass']}): renaming, in the copy, a Constant output whose const_value is the tensor object of the node's attribute renamed that (shared) tensor: the input model serializes differently afterwards", key="shared-attribute-tensor-renamed-through-value-name|functionalize")
                return res
            viol("functionalize-altered-input", f"functionalize({case['pass']}): the input model serializes differently afterwards", key=f"functionalize-altered-input|{case['pass']}|proto")
            return res
        if result is not None:
            if result.model is model:
                viol("functionalize-returned-input", f"functionalize({case['pass']}) returned the input model object")
                return res
            inc("functionalize_ok")
            if result.modified:
                inc("functionalize_modified_copy")
                res["distinct"] = [digest((case["model_seed"], case["params"], kind, case["pass"]))]
            w2 = World()
            w2.reg(result.model)
            w2.close()
            shared = set(_main_ids(w1)) & set(_main_ids(w2))
            if shared:
                viol("functionalize-result-shares-objects", f"the functional result shares {len(shared)} graphs/nodes/values with its input")
        res["event_digest"] = digest(trace)
        return res
    # ------------------------------------------------------------- at clone time
    w2 = World()
    w2.reg(clone_obj)
    w2.close()
    pa, pb = _proto_bytes(original_obj), _proto_bytes(clone_obj)
    if pa is not None:
        inc("proto_compared")
        if pb != pa:
            viol("clone-serializes-differently", f"{kind}: to_proto(clone) != to_proto(original)" + (" (clone does not serialize)" if pb is None else ""))
            return res
    else:
        inc("original_not_serializable")
    m1, m2 = _main_ids(w1), _main_ids(w2)
    if not closed:
        # only the subgraphs' own objects count; captured outer values (and whatever is reachable through them,
        # including each other's consumer lists) are shared by design
        m1 = _internal_objects(original_obj)
        m2 = _internal_objects(clone_obj)
        bad_ref = None
        for n in clone_obj.all_nodes():
            for v in n.inputs:
                if v is not None and id(v) not in m2 and id(v) not in allowed_shared:
                    bad_ref = v
        if bad_ref is not None:
            unsorted = case["params"].get("unsorted")
            where = "belongs to the original subgraph itself" if id(bad_ref) in m1 else "is neither the clone's own nor a captured outer value"
            viol("clone-references-original", f"{kind}: a cloned node uses value {bad_ref.name!r} which {where}", key=f"clone-references-original|{kind}|inner-value|unsorted={unsorted}")
            return res
    shared = [k for k in m2 if k in m1 and k not in allowed_shared]
    if shared:
        what = m2[shared[0]]
        obj_kind = {"v": "value", "n": "node", "g": "graph", "f": "function", "m": "model"}[what[0]]
        unsorted = case["params"].get("unsorted")
        viol("clone-references-original", f"{kind}: the clone's closure reaches {len(shared)} object(s) of the original, e.g. {obj_kind} {what}", key=f"clone-references-original|{kind}|{obj_kind}|unsorted={unsorted}")
        return res
    deep = kind.endswith("_deep")
    a1, a2 = _aux_ids(w1, deep), _aux_ids(w2, deep)
    shared_aux = [k for k in a2 if k in a1]
    if shared_aux and closed:
        k0 = shared_aux[0]
        viol("clone-shares-mutable-subobject", f"{kind}: clone and original share the {a2[k0][0]} object of {a2[k0][1]} (and {len(shared_aux) - 1} more)", key=f"clone-shares-mutable-subobject|{a2[k0][0]}")
        return res
    if not closed:
        inc("outer_capture_clone_ok")
        res["distinct"] = [digest((case["model_seed"], kind))]
        res["event_digest"] = digest(trace)
        return res
    # ------------------------------------------------------------- edit phase: two replicas
    worlds = (w1, w2)
    sides = (original_obj, clone_obj)
    protos: list = [None, None]  # serialized form of each side as of its own last edit (None: to be taken)
    applied = [0, 0]
    for i, (op, side) in enumerate(zip(case["edits"], case["route"])):
        target, other = worlds[side], worlds[1 - side]
        if op[0] == "meta_mutate" and not deep and op[2] % 5 not in (3, 4):
            continue  # a shallow copy shares the objects stored in .meta by design (the store itself - its entries and their validity marks - is the copy's own)
        before = snapshot.snapshot(other, tensors=False)
        if protos[1 - side] is None:
            protos[1 - side] = (_proto_bytes(sides[1 - side]),)
        tensors_b = _tensor_states(model, planted_objs) if planted else {}
        r = ops.apply_op(target, op)
        trace.append((side, op[0], r[0], r[1] if r[0] == "raise" else None))
        if r[0] == "ok":
            applied[side] += 1
        after = snapshot.snapshot(other, tensors=False)
        if after != before:
            d = snapshot.diff(before, after)
            (ref, field, x, y) = d[0] if d else (("?", 0), "?", None, None)
            viol("replica-not-isolated", f"{kind}: edit {i} ({op[0]}, {r[0]}) on the {'clone' if side else 'original'} changed the {'original' if side else 'clone'}: {ref} field '{field}': {x!r} -> {y!r}", key=f"replica-not-isolated|{op[0]}|{field}")
            c = copy.deepcopy(case)
            c["edits"] = case["edits"][: i + 1]
            c["route"] = case["route"][: i + 1]
            res["case"] = c
            break
        protos[side] = None
        pb_other = protos[1 - side][0]
        if pb_other is not None:
            inc("edit_phase_proto_compared")
            if _proto_bytes(sides[1 - side]) != pb_other:
                whom = f"edit {i} ({op[0]}, {r[0]}) on the {'clone' if side else 'original'}: the {'original' if side else 'clone'} serializes differently afterwards"
                if _only_shared_attribute_tensor_renamed(tensors_b, planted, lambda: _proto_bytes(sides[1 - side]), pb_other):
                    viol("replica-not-isolated", f"{kind}: {whom} - a Constant output whose const_value is the tensor object of the node's attribute was renamed, which renamed that (shared) tensor", key="shared-attribute-tensor-renamed-through-value-name|edit")
                else:
                    viol("replica-not-isolated", f"{kind}: {whom}", key=f"replica-not-isolated|{op[0]}|proto")
                c = copy.deepcopy(case)
                c["edits"] = case["edits"][: i + 1]
                c["route"] = case["route"][: i + 1]
                res["case"] = c
                break
    inc("edits_on_original", applied[0])
    inc("edits_on_clone", applied[1])
    res["steps"] = len(trace)
    res["event_digest"] = digest(trace)
    if res["violation"] is None and min(applied) >= 5:
        res["distinct"] = [digest((case["model_seed"], case["params"], kind, trace))]
    res["sample"] = {"clone": kind, "params": case["params"], "edits": [f"{'C' if t[0] else 'O'}:{t[1]}:{t[2]}" for t in trace][:50]}
    return res


def shrink_candidates(case: dict, violation: dict):
    n = len(case["edits"])
    for width in (8, 4, 2, 1):
        for lo in range(0, max(0, n - 1), width):
            hi = min(n - 1, lo + width)
            if hi <= lo:
                continue
            c = copy.deepcopy(case)
            c["edits"] = case["edits"][:lo] + case["edits"][hi:]
            c["route"] = case["route"][:lo] + case["route"][hi:]
            yield c
    for key, vals in (("n_nodes", [1, 2, 3]), ("n_functions", [0]), ("depth", [0, 1]), ("n_inits", [0, 1]), ("n_inputs", [0, 1]), ("metadata", [False]), ("unsorted", [False]), ("typed", [False])):
        for val in vals:
            cur = case["params"].get(key)
            if cur != val and (isinstance(val, bool) or val < cur):
                c = copy.deepcopy(case)
                c["params"][key] = val
                yield c
    for flag in ("devices", "meta_noise", "nested_types"):
        if case.get(flag):
            c = copy.deepcopy(case)
            c[flag] = False
            yield c


def finding_key(case: dict, violation: dict) -> str:
    return violation.get("key") or violation.get("clause")


def check_reach(agg: dict, tier: str):
    st = agg["stats"]
    need = ["clone_" + k for k in CLONE_KINDS] + ["proto_compared", "edits_on_original", "edits_on_clone", "outer_capture_rejected", "outer_capture_clone_ok", "functionalize_modified_copy"]
    missing = [k for k in need if not st.get(k)]
    return missing if agg["runs"] > 400 else []
