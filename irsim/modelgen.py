"""Seeded generator of structurally well-formed models over a closed vocabulary.

Every value is defined in exactly one scope and used in that scope or a nested
one; subgraphs have exactly one owner node; functions are called by domain/name.
With ``typed=True`` every tensor is float32[2,3] (plus a bool[] condition) so
that the models are accepted by the ONNX checker.
"""

from __future__ import annotations

import random
import zlib

import numpy as np
import onnx_ir as ir

from iosim.tensors import LAYOUTS, relayout

F = ir.DataType.FLOAT


class Params(dict):
    DEFAULTS = dict(
        n_nodes=8, n_inputs=2, n_inits=2, n_outputs=2, p_if=0.15, p_call=0.1, n_functions=1, depth=2, typed=True,
        name_noise=0.0, unsorted=False, p_dup=0.2, p_const=0.15, p_multi=0.1, p_unused=0.1, p_optional=0.05, metadata=False,
        big_init=False, dup_inits=False, unused_function=False, ir_version=10, init_as_input=0.2, lazy_failing_init=False,
        p_func_subgraph=0.35, annot_noise=0.0, name_style=0, func_name_overlap=0.0, p_graphs=0.0, more_ops=False, alias_outputs=0.0, ref_graph_attrs=0.0, hinted_inputs=0.0,
    )  # fmt: skip

    def __init__(self, **kw):
        super().__init__(self.DEFAULTS)
        self.update(kw)


def _tensor(rng, name, big=False):
    if big:
        arr = (np.arange(600, dtype=np.float32) % 7).reshape(20, 30) + rng.randrange(3)
    else:
        arr = (np.arange(6, dtype=np.float32).reshape(2, 3) + rng.randrange(4)).astype(np.float32)
    # the memory layout of the backing array varies with the name (no draw from the model stream); the logical
    # content, and therefore every serialized byte, is the same in all layouts
    h = zlib.crc32(name.encode())
    if (h >> 8) % 10 < 3:
        arr = relayout(arr, LAYOUTS[1 + h % (len(LAYOUTS) - 1)])
    return ir.Tensor(arr, name=name)


class Builder:
    def __init__(self, rng, p: Params) -> None:
        self.rng = rng
        self.p = p
        self.k = 0
        self.functions: list = []
        self.all_values: list = []
        self.all_nodes: list = []
        self.uses_custom = False
        self.ref_attr = None  # name of the enclosing function's attribute parameter while a function body is built
        self.graph_param_functions: set = set()  # ids of functions that take their If branches as graph attributes

    def _branch_graph(self, bname: str):
        """A small closed graph for a call site to pass as a graph-valued attribute."""
        k = ir.Node("", "Constant", [], [ir.AttrTensor("value", ir.Tensor(np.full((2, 3), float(len(bname)), dtype=np.float32), name=self.fresh("gt")))], name=self.fresh("n"))
        k.outputs[0].name = self.fresh("v")
        self._type_out(k.outputs[0])
        self.all_nodes.append(k)
        return ir.Graph([], [k.outputs[0]], nodes=[k], name=self.fresh(bname[:4]))

    def call_attributes(self, f) -> list:
        if id(f) not in self.graph_param_functions:
            return []
        return [ir.AttrGraph("then_graph", self._branch_graph("then_graph")), ir.AttrGraph("else_graph", self._branch_graph("else_graph"))]

    def fresh(self, prefix: str) -> str:
        self.k += 1
        if self.p["name_style"]:
            # names shaped like the ones exporters produce (path separators, scope prefixes, dots, output suffixes)
            k = self.k
            return [f"/blk{k % 3}/{prefix}{k}", f"{prefix}.{k}", f"/m/layers.{k % 2}/{prefix}_output_{k}", f"{prefix}{k}:0", f"onnx::{prefix}_{k}", f"{prefix}{k}"][k % 6]
        return f"{prefix}{self.k}"

    def value(self, name=None, typed=None):
        typed = self.p["typed"] if typed is None else typed
        v = ir.Value(name=name or self.fresh("v"))
        if typed:
            v.type = ir.TensorType(F)
            v.shape = ir.Shape([2, 3])
        self.all_values.append(v)
        return v

    def _type_out(self, v):
        if self.p["typed"]:
            v.type = ir.TensorType(F)
            v.shape = ir.Shape([2, 3])
        self.all_values.append(v)

    def build_body(self, visible: list, depth: int, n_nodes: int, graph_inputs: list, want_outputs: int, name: str, inits: list | None = None, as_graph=True):
        """Create nodes in order; returns (graph, produced values)."""
        rng, p = self.rng, self.p

        def _usable(v):
            return not p["typed"] or (v.shape is not None and list(v.shape.dims) == [2, 3])

        local: list = [v for v in list(graph_inputs) + list(inits or []) if _usable(v)]
        nodes: list = []
        for v in list(inits or []):
            if not _usable(v) and rng.random() < 0.5:
                # an oversized initializer only feeds a sink whose output shape is left to inference
                sink = ir.Node("", "Identity", [v], name=self.fresh("n"))
                sink.outputs[0].name = self.fresh("v")
                sink.outputs[0].type = ir.TensorType(F)
                self.all_values.append(sink.outputs[0])
                nodes.append(sink)
                self.all_nodes.append(sink)
        exprs: list = []
        for _ in range(n_nodes):
            avail = local + visible
            x = rng.random()
            if not avail or x < p["p_const"]:
                form = rng.choice(["value", "value", "value_float", "value_ints"]) if not p["typed"] else "value"
                if form == "value":
                    attr = ir.AttrTensor("value", _tensor(rng, self.fresh("c")))
                elif form == "value_float":
                    attr = ir.AttrFloat32("value_float", float(rng.randrange(5)))
                else:
                    attr = ir.AttrInt64s("value_ints", [1, 2, rng.randrange(4)])
                n = ir.Node("", "Constant", [], [attr], num_outputs=1, name=self.fresh("n"))
            elif x < p["p_const"] + p["p_if"] and depth > 0 and avail:
                cond = ir.Value(name=self.fresh("cond"))
                if p["typed"]:
                    cond.type = ir.TensorType(ir.DataType.BOOL)
                    cond.shape = ir.Shape([])
                self.all_values.append(cond)
                cn = ir.Node("", "Constant", [], [ir.AttrTensor("value", ir.Tensor(np.array(bool(rng.randrange(2))), name=self.fresh("cb")))], outputs=[cond], name=self.fresh("n"))
                nodes.append(cn)
                self.all_nodes.append(cn)
                branches = []
                for bname in ("then_branch", "else_branch"):
                    binit = []
                    if rng.random() < 0.4:
                        iv = self.value(self.fresh("bi"))
                        iv.const_value = _tensor(rng, iv.name)
                        binit = [iv]
                    bg, _ = self.build_body(avail, depth - 1, rng.randrange(1, 4), [], 1, self.fresh(bname[:4]), inits=binit)
                    branches.append(ir.AttrGraph(bname, bg))
                n = ir.Node("", "If", [cond], branches, num_outputs=1, name=self.fresh("n"))
            elif x < p["p_const"] + p["p_if"] + p["p_call"] and self.functions and avail:
                f = rng.choice(self.functions)
                ins = [rng.choice(avail) for _ in f.inputs]
                n = ir.Node(f.domain, f.name, ins, ([ir.AttrFloat32("alpha", 1.0 + rng.randrange(3))] if rng.random() < 0.5 else []) + self.call_attributes(f), num_outputs=len(f.outputs), name=self.fresh("n"))
            elif x < p["p_const"] + p["p_if"] + p["p_call"] + p.get("p_graphs", 0.0) and depth > 0 and avail:
                # a custom-domain operator carrying a LIST of graphs in one attribute (AttributeType.GRAPHS)
                bodies = []
                for _b in range(rng.choice([1, 2, 2, 3])):
                    binit = []
                    if rng.random() < 0.3:
                        iv = self.value(self.fresh("bi"))
                        iv.const_value = _tensor(rng, iv.name)
                        binit = [iv]
                    bg, _ = self.build_body(avail, depth - 1, rng.randrange(1, 4), [], 1, self.fresh("case"), inits=binit)
                    bodies.append(bg)
                n = ir.Node("custom", "Switch", [rng.choice(avail)], [ir.AttrGraphs("branches", bodies)], num_outputs=1, name=self.fresh("n"))
                self.uses_custom = True
            elif x < p["p_const"] + p["p_if"] + p["p_call"] + p.get("p_graphs", 0.0) + p["p_multi"] and avail:
                kind = rng.choice(["Dropout", "Split", "Concat", "LayerNorm3"] + (["BatchNormTrain", "ClipNone", "RandomLike", "ConstForms"] if p.get("more_ops") else []))
                if kind == "BatchNormTrain":
                    # training mode: three outputs of which the running statistics are optional; the [3]-vectors come
                    # from a Constant written with the value_floats form
                    vec = ir.Node("", "Constant", [], [ir.AttrFloat32s("value_floats", [1.0, 2.0, float(rng.randrange(4))])], num_outputs=1, name=self.fresh("n"))
                    vec.outputs[0].name = self.fresh("v")
                    if p["typed"]:
                        vec.outputs[0].type = ir.TensorType(F)
                        vec.outputs[0].shape = ir.Shape([3])
                    self.all_values.append(vec.outputs[0])
                    nodes.append(vec)
                    self.all_nodes.append(vec)
                    c3 = vec.outputs[0]
                    n = ir.Node("", "BatchNormalization", [rng.choice(avail), c3, c3, c3, c3], [ir.AttrInt64("training_mode", 1)], num_outputs=rng.choice([1, 3, 3]), name=self.fresh("n"))
                elif kind == "ClipNone":
                    # omitted optional inputs written as trailing empty inputs
                    n = ir.Node("", "Clip", [rng.choice(avail), None, None][: rng.choice([2, 3])], num_outputs=1, name=self.fresh("n"))
                elif kind == "RandomLike":
                    # a non-deterministic operator: two textually equal nodes are NOT the same value
                    src = rng.choice(avail)
                    first = ir.Node("", "RandomUniformLike", [src], name=self.fresh("n"))
                    first.outputs[0].name = self.fresh("v")
                    self._type_out(first.outputs[0])
                    nodes.append(first)
                    self.all_nodes.append(first)
                    local.append(first.outputs[0])
                    n = ir.Node("", "RandomUniformLike", [src], name=self.fresh("n"))
                elif kind == "ConstForms":
                    form = rng.choice(["value_float", "value_int", "value_ints", "value_floats", "value_string", "value_strings"])
                    attr = {"value_float": ir.AttrFloat32("value_float", 2.5), "value_int": ir.AttrInt64("value_int", 7), "value_ints": ir.AttrInt64s("value_ints", [1, 2]),
                            "value_floats": ir.AttrFloat32s("value_floats", [0.5, 1.5]), "value_string": ir.AttrString("value_string", "s"), "value_strings": ir.AttrStrings("value_strings", ["a", "b"])}[form]
                    n = ir.Node("", "Constant", [], [attr], num_outputs=1, name=self.fresh("n"))
                elif kind == "LayerNorm3":
                    # three outputs, the two optional ones (Mean, InvStdDev) used or not independently: an unused optional
                    # output that is NOT trailing can only be blanked, never trimmed
                    ln = ir.Node("", "LayerNormalization", [rng.choice(avail), rng.choice(avail)], [ir.AttrInt64("axis", 0)], num_outputs=3, name=self.fresh("n"))
                    for oi, o in enumerate(ln.outputs):
                        o.name = self.fresh("v")
                        if oi == 0:
                            self._type_out(o)
                        else:
                            if p["typed"]:
                                o.type = ir.TensorType(F)
                                o.shape = ir.Shape([1, 1])
                            self.all_values.append(o)
                    nodes.append(ln)
                    self.all_nodes.append(ln)
                    use = rng.choice([(0, 2), (0, 2), (0, 1), (0, 1, 2), (0,)])
                    if len(use) == 1:
                        n = ir.Node("", "Identity", [ln.outputs[0]], name=self.fresh("n"))
                    else:
                        n = ir.Node("", "Add", [ln.outputs[use[0]], ln.outputs[use[1]]], name=self.fresh("n"))
                        if len(use) == 3:
                            n2 = ir.Node("", "Add", [n.outputs[0], ln.outputs[2]], name=self.fresh("n"))
                            n.outputs[0].name = self.fresh("v")
                            self._type_out(n.outputs[0])
                            nodes.append(n)
                            self.all_nodes.append(n)
                            n = n2
                elif kind == "Dropout":
                    n = ir.Node("", "Dropout", [rng.choice(avail)], num_outputs=rng.choice([1, 2]), name=self.fresh("n"))
                elif kind == "Split":
                    n = ir.Node("", "Split", [rng.choice(avail)], [ir.AttrInt64("axis", 0), ir.AttrInt64("num_outputs", 2)], num_outputs=2, name=self.fresh("n"))
                else:
                    n = ir.Node("", "Concat", [rng.choice(avail) for _ in range(rng.choice([1, 2, 3]))], [ir.AttrInt64("axis", 0)], num_outputs=1, name=self.fresh("n"))
            else:
                if exprs and rng.random() < p["p_dup"]:
                    op, ins = rng.choice(exprs)
                    ins = list(ins)
                else:
                    op = rng.choice(["Add", "Sub", "Mul", "Neg", "Relu", "Identity", "Identity", "Abs"])
                    k = 2 if op in ("Add", "Sub", "Mul") else 1
                    ins = [rng.choice(avail) for _ in range(k)]
                    exprs.append((op, tuple(ins)))
                if op in ("Add",) and rng.random() < p["p_optional"]:
                    pass
                if self.ref_attr is not None and rng.random() < 0.3:
                    # in a function body: an attribute that refers to the function's own attribute parameter
                    n = ir.Node("", "LeakyRelu", ins[:1], [ir.RefAttr("alpha", self.ref_attr, ir.AttributeType.FLOAT)], name=self.fresh("n"))
                else:
                    n = ir.Node("", op, ins, name=self.fresh("n"))
            shape_known = (n.domain == "" and n.op_type in ("Add", "Sub", "Mul", "Neg", "Relu", "Identity", "Abs", "Constant", "LeakyRelu", "Clip", "RandomUniformLike")) or n.domain == "custom"
            if n.op_type == "Constant" and "value" not in n.attributes:
                shape_known = False
            for oi, o in enumerate(n.outputs):
                o.name = self.fresh("v")
                if shape_known:
                    self._type_out(o)
                else:
                    # shape (and for Dropout's mask the type) is left to inference
                    if n.op_type == "Constant":
                        form = next(iter(n.attributes), "")
                        if p["typed"]:
                            o.type = ir.TensorType(ir.DataType.INT64 if "int" in form else (ir.DataType.STRING if "string" in form else F))
                    elif n.op_type == "BatchNormalization" and oi > 0:
                        if p["typed"]:
                            o.type = ir.TensorType(F)
                            o.shape = ir.Shape([3])
                    elif p["typed"] and not (n.op_type == "Dropout" and oi == 1):
                        o.type = ir.TensorType(F)
                    self.all_values.append(o)
            nodes.append(n)
            self.all_nodes.append(n)
            for oi, o in enumerate(n.outputs):
                usable = shape_known or (n.op_type in ("Dropout", "If", "BatchNormalization") and oi == 0) or not p["typed"]
                if usable and rng.random() > p["p_unused"]:
                    local.append(o)
        produced = [o for n in nodes for o in n.outputs]
        cands = [v for v in produced if not p["typed"] or (v.type is not None and v.type.dtype == F and v.shape is not None)]
        outs = []
        for _ in range(want_outputs):
            if cands:
                outs.append(rng.choice(cands))
        if not outs:
            # a body needs an output: pass something through an Identity
            src = rng.choice(local + visible) if (local + visible) else None
            if src is None:
                n = ir.Node("", "Constant", [], [ir.AttrTensor("value", _tensor(rng, self.fresh("c")))], num_outputs=1, name=self.fresh("n"))
            else:
                n = ir.Node("", "Identity", [src], name=self.fresh("n"))
            n.outputs[0].name = self.fresh("v")
            self._type_out(n.outputs[0])
            nodes.append(n)
            self.all_nodes.append(n)
            outs = [n.outputs[0]]
        # graph outputs must be distinct objects for a valid model
        uniq = []
        for o in outs:
            if not any(o is u for u in uniq):
                uniq.append(o)
        order = list(nodes)
        if p["unsorted"] and len(order) > 1 and rng.random() < 0.7:
            rng.shuffle(order)
        if not as_graph:
            return order, uniq
        g = ir.Graph(graph_inputs, uniq, nodes=order, initializers=list(inits or []), name=name)
        return g, produced


def gen_model(rng, p: Params | None = None) -> ir.Model:
    p = p or Params()
    b = Builder(rng, p)
    # functions first (they only see their own inputs)
    functions = []
    for i in range(p["n_functions"]):
        fin = [b.value(b.fresh("fx")) for _ in range(rng.choice([1, 2]))]
        saved = b.functions
        b.functions = list(functions)  # nesting: a function may call earlier ones
        fdepth = 1 if (p["depth"] > 0 and rng.random() < p.get("p_func_subgraph", 0.35)) else 0
        has_attr = rng.random() < 0.5
        b.ref_attr = "alpha" if (has_attr and p.get("ref_attrs", True)) else None
        fg, _ = b.build_body([], fdepth, rng.randrange(1, 5), fin, 1, b.fresh("fbody"))
        b.ref_attr = None
        b.functions = saved
        fattrs = [ir.Attr("alpha", ir.AttributeType.FLOAT, 1.0)] if has_attr else []
        rga = p.get("ref_graph_attrs", 0.0)
        graph_params = bool(rga) and random.Random(zlib.crc32(fg.name.encode()) ^ 0x5EED).random() < rga and len(fg.outputs) > 0
        if graph_params:
            # the function body ends in an If whose branches are the function's own graph-valued attribute parameters
            # (reference attributes of type GRAPH - legal in function bodies only; every call site passes the graphs)
            cn = ir.Node("", "Constant", [], [ir.AttrTensor("value", ir.Tensor(np.array(True), name=b.fresh("cb")))], name=b.fresh("n"))
            cn.outputs[0].name = b.fresh("v")
            if p["typed"]:
                cn.outputs[0].type = ir.TensorType(ir.DataType.BOOL)
                cn.outputs[0].shape = ir.Shape([])
            ifn = ir.Node("", "If", [cn.outputs[0]], [ir.RefAttr("then_branch", "then_graph", ir.AttributeType.GRAPH), ir.RefAttr("else_branch", "else_graph", ir.AttributeType.GRAPH)], name=b.fresh("n"))
            ifn.outputs[0].name = b.fresh("v")
            b._type_out(ifn.outputs[0])
            add = ir.Node("", "Add", [fg.outputs[0], ifn.outputs[0]], name=b.fresh("n"))
            add.outputs[0].name = b.fresh("v")
            b._type_out(add.outputs[0])
            for n_ in (cn, ifn, add):
                fg.append(n_)
                b.all_nodes.append(n_)
            fg.outputs[0] = add.outputs[0]
            fattrs += [ir.Attr("then_graph", ir.AttributeType.UNDEFINED, None), ir.Attr("else_graph", ir.AttributeType.UNDEFINED, None)]
        f = ir.Function("fdom", f"F{i}", "", graph=fg, attributes=fattrs)
        if graph_params:
            b.graph_param_functions.add(id(f))
        fg.opset_imports[""] = 20
        fg.opset_imports["fdom"] = 1
        if b.uses_custom:
            fg.opset_imports["custom"] = 1
        functions.append(f)
    b.functions = functions if not p["unused_function"] else functions[:-1] if len(functions) > 1 else functions
    inputs = [b.value(b.fresh("x")) for _ in range(p["n_inputs"])]
    inits = []
    for i in range(p["n_inits"]):
        v = b.value(b.fresh("w"))
        big = p["big_init"] and i == 0
        v.const_value = _tensor(rng, v.name, big=big)
        if big and p["typed"]:
            v.shape = ir.Shape([20, 30])
        inits.append(v)
    if p["dup_inits"] and inits:
        v = b.value(b.fresh("w"))
        src = inits[0]
        v.const_value = ir.Tensor(src.const_value.numpy().copy(), name=v.name)
        v.shape = src.shape.copy() if src.shape is not None else None
        inits.append(v)
    if p["lazy_failing_init"]:
        v = b.value(b.fresh("lz"))

        def thunk():
            raise RuntimeError("injected failure: lazy tensor cannot be materialised")

        v.const_value = ir.LazyTensor(thunk, dtype=F, shape=ir.Shape([2, 3]), name=v.name)
        inits.append(v)
    g_inputs = list(inputs) + [v for v in inits if rng.random() < p["init_as_input"]]
    # big initializers feed through an op that tolerates any shape only when untyped; keep them out of the arithmetic when typed
    usable_inits = [v for v in inits if not (p["typed"] and v.shape is not None and list(v.shape.dims) != [2, 3])]
    graph, _ = b.build_body([], p["depth"], p["n_nodes"], g_inputs, p["n_outputs"], "main", inits=inits)
    _ = usable_inits
    graph.opset_imports[""] = 20
    ao = p.get("alias_outputs", 0.0)
    if ao and rng.random() < ao:
        # graph outputs that are graph inputs / initializers themselves, or one value listed twice
        how = rng.choice(["input", "initializer", "twice"])
        if how == "input" and graph.inputs:
            graph.outputs.append(rng.choice(list(graph.inputs)))
        elif how == "initializer" and graph.initializers:
            graph.outputs.append(rng.choice(list(graph.initializers.values())))
        elif len(graph.outputs):
            graph.outputs.append(graph.outputs[rng.randrange(len(graph.outputs))])
    hi = p.get("hinted_inputs", 0.0)
    if hi:
        # a plain graph input that merely carries a tensor (a constant hint, or what `initializers.pop(name)` leaves
        # behind): it is NOT an initializer and its tensor is not serialized
        for v in list(graph.inputs):
            if v.const_value is None and not v.is_initializer() and (zlib.crc32(("hint" + (v.name or "")).encode()) % 100) < hi * 100:
                v.const_value = _tensor(random.Random(zlib.crc32((v.name or "").encode())), v.name)
    if functions:
        graph.opset_imports["fdom"] = 1
    if b.uses_custom:
        graph.opset_imports["custom"] = 1
    model = ir.Model(graph, ir_version=p["ir_version"], functions=functions, producer_name="verif")
    if p["metadata"]:
        model.metadata_props["mk"] = "mv"
        model.producer_version = "1.2.3"
        model.model_version = 3 + rng.randrange(3)
        model.doc_string = "model doc"
        model.domain = "verif.models"
        style = rng.randrange(5)  # which kinds of metadata are present varies: graph level, node level, doc strings only, owners only
        if style == 4:
            # documentation on the OWNERS only (main graph, nested bodies, functions), as doc strings without metadata:
            # no node and no value carries anything
            model.metadata_props.clear()
            graph.doc_string = "graph doc"
            for sg in graph.subgraphs():
                sg.doc_string = "body doc"
            for f in functions:
                f.doc_string = "function doc"
        else:
            for f in functions:
                f.doc_string = "function doc"
                f.metadata_props["fk"] = "fv"
            if style != 1:
                graph.metadata_props["gk"] = "gv"
            for i_, n in enumerate(b.all_nodes[:4]):
                if style == 1:
                    n.doc_string = "ndoc"  # doc strings only
                    continue
                # metadata and doc string do not always come together
                if i_ % 3 != 1:
                    n.metadata_props["nk"] = "nv"
                if i_ % 3 != 2:
                    n.doc_string = "ndoc"
            for v in b.all_values[:3]:
                v.metadata_props["vk"] = "vv"
                v.doc_string = "vdoc"
    # functions are separate scopes: their values may legally carry the names of main-graph values
    # (including the outputs of the very nodes that call them)
    fo = p.get("func_name_overlap", 0.0)
    if fo:
        main_names = [v.name for v in list(graph.inputs) + [o for n in graph.all_nodes() for o in n.outputs] if v.name]
        for f in functions:
            fvals = list(f.inputs) + [o for n in f.all_nodes() for o in n.outputs]
            used = {v.name for v in fvals}
            for v in fvals:
                free = [nm for nm in main_names if nm not in used]
                if free and rng.random() < fo:
                    v.name = rng.choice(free)
                    used.add(v.name)
    # annotation noise: some values lose their shape (or get a symbolic one) or their type altogether
    an = p.get("annot_noise", 0.0)
    if an:
        for v in b.all_values:
            x = rng.random()
            if x < an / 3:
                v.shape = None
            elif x < 2 * an / 3:
                if v.shape is not None and len(v.shape) == 2:
                    v.shape = ir.Shape(["batch", 3]) if rng.random() < 0.5 else ir.Shape([None, 3])
            elif x < an:
                v.shape = None
                v.type = None
    # naming noise: missing and duplicated names
    noise = p["name_noise"]
    if noise:
        pool = [v for v in b.all_values if not v.is_initializer()]
        names = [v.name for v in b.all_values if v.name]
        for v in pool:
            x = rng.random()
            if x < noise / 3:
                v.name = None if rng.random() < 0.5 else ""
            elif x < noise * 0.8 and names:
                v.name = rng.choice(names)
            elif x < noise and names:
                # names shaped like the ones a fixing pass would generate
                v.name = rng.choice([rng.choice(names) + "_1", "v", "v_1", "v_2", rng.choice(names) + "_2"])
        for v in b.all_values:
            if v.is_initializer() and rng.random() < noise / 2:
                # duplicate another scope's name (allowed: initializer keys are per graph)
                cand = rng.choice(names)
                try:
                    v.name = cand
                except ValueError:
                    pass
        nnames = [n.name for n in b.all_nodes if n.name]
        for n in b.all_nodes:
            x = rng.random()
            if x < noise / 3:
                n.name = None if rng.random() < 0.5 else ""
            elif x < noise * 0.8 and nnames:
                n.name = rng.choice(nnames)
            elif x < noise and nnames:
                n.name = rng.choice([rng.choice(nnames) + "_1", "node", "node_1", "node_2"])
    return model
