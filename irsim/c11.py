"""C11 — graph iteration stays well defined while the graph is edited.

Cooperative tasks: up to four live iterators (forward, reverse, recursive
forward/reverse, all_nodes) over one graph / function with nested bodies are
stepped by the driver, interleaved with node-sequence edits aimed at the node an
iterator is parked on, its neighbours, visited and unvisited nodes.  A plain
Python list per graph is the reference model.  See DESIGN.md section 6 (C11).
"""

from __future__ import annotations

import copy
import logging
import signal

import onnx_ir as ir
from onnx_ir import traversal

from simcore import knobs as _knobs
from simcore.prng import Streams, digest

logging.getLogger("onnx_ir").setLevel(logging.ERROR)

PROPERTY = "C11"
LEVEL = "exploration"
TIERS = {
    "quick": {"max_runs": 12000, "optimize_runs": 2400, "wall": 420, "optimize_wall": 180, "chunk": 200, "shrink_budget": 500, "shrink_wall": 60},
    "thorough": {"wall": 600, "optimize_wall": 120, "chunk": 1000, "shrink_budget": 1000, "shrink_wall": 240},
}
RULE = (
    "each run = one seeded interleaving: 0-12 initial nodes (some owning nested bodies, with data dependencies so that sort reorders) in a "
    "graph or function plus a second graph; up to 4 simultaneously live iterators of kinds {iter, reversed, RecursiveGraphIterator fwd/rev, "
    "all_nodes}; 10-60 steps, each either 'advance iterator i' or one of append/extend/insert_before/insert_after/remove/move/sort aimed "
    "(biased) at the node an iterator is parked on, its neighbours, visited or unvisited nodes; then edits stop and every iterator is drained. "
    "distinct = digest of the (kind, outcome) step sequence; non-trivial = at least one iterator was advanced after an edit touched its cursor or neighbourhood"
)
ASSUMPTIONS = [
    "predicates are stated only where the property is unambiguous: exact-next when the last yielded node is untouched; when it was removed/moved, the next yield is the node that followed it or a node inserted at the vacated place afterwards (both readings accepted)",
    "sort re-links every node, so after a sort only 'no exception', 'terminates' and 'yields members only' are required of live iterators",
    "for recursive iterators the flat rules are applied to the projection on the top-level sequence; nested nodes are checked for membership and exactly-once when they and their owner are never touched",
    "single client: iterators are genuine generators inside ir-py whose interleaving with mutators the driver controls exactly",
]
REAL_STUB = {"real": ["onnx_ir._linked_list", "Graph/Function node-sequence methods", "onnx_ir.traversal.RecursiveGraphIterator"], "stub": [], "harness_extension_points": []}

class _Hang(BaseException):
    pass


def _on_alarm(signum, frame):
    raise _Hang()


signal.signal(signal.SIGALRM, _on_alarm)

IT_KINDS = ["fwd", "rev", "rec_fwd", "rec_rev", "all_nodes", "fn_fwd", "fn_rev"]
EDITS = ["append", "extend", "insert_before", "insert_after", "remove", "move_before", "move_after", "sort", "move_graph", "remove_many"]


def gen_case(run_seed: int, tier: str, index: int = 0) -> dict:
    r = Streams(run_seed).rng("workload")
    n0 = r.choice([0, 1, 2, 3, 4, 5, 6, 8, 12])
    nested = [r.random() < 0.2 for _ in range(n0)]
    deps = [[r.randrange(i) for _ in range(r.choice([0, 0, 1, 2]))] if i else [] for i in range(n0)]
    perm = list(range(n0))
    if r.random() < 0.5:
        r.shuffle(perm)
    steps = []
    n_steps = r.choice([10, 20, 30, 45, 60])
    live = 0
    for _ in range(n_steps):
        x = r.random()
        if live < 4 and (live == 0 or x < 0.1):
            steps.append(["new_it", r.randrange(len(IT_KINDS)), 0, 0])
            live += 1
        elif x < 0.5:
            steps.append(["step", r.randrange(8), 0, 0])
        else:
            steps.append([r.choices(EDITS, [5, 3, 6, 6, 7, 4, 4, 1, 2, 2])[0], r.randrange(1 << 16), r.randrange(1 << 16), r.randrange(1 << 16)])
    return {"property": PROPERTY, "warnings_error": _knobs.warnings_knob(run_seed), "run_seed": run_seed, "n0": n0, "nested": nested, "deps": deps, "perm": perm, "function": r.random() < 0.3, "steps": steps, "ref_graph_attrs": Streams(run_seed).rng("ref-graph-attrs").random() < 0.5, "falsy_nodes": Streams(run_seed).rng("falsy-nodes").choice([None, None, None, "len", "bool"])}


class It:
    def __init__(self, idx, kind, obj, reverse, recursive):
        self.idx = idx
        self.kind = kind
        self.obj = obj
        self.reverse = reverse
        self.recursive = recursive
        self.start_time = 0
        self.start_members: list = []
        self.last = None  # last yielded top-level node
        self.last_time = -1
        self.last_touched = False
        self.s = None
        self.s_valid = False
        self.t = -1
        self.log: list = []  # (time, node)
        self.done = False
        self.steps = 0
        self.relevant = False


class _SizedNode(ir.Node):
    def __len__(self) -> int:
        return len(self.inputs)


class _FalseNode(ir.Node):
    def __bool__(self) -> bool:
        return False


class Sim:
    def __init__(self, case: dict) -> None:
        self.case = case
        self.time = 0
        self.nodes: list = []  # every node ever created (top-level candidates)
        self.names: dict = {}
        self.viol: dict | None = None
        self.stats: dict = {}
        self.trace: list = []
        # user subclasses of Node whose instances can be FALSE in a boolean context (a container-like __len__, a __bool__):
        # the sequence must treat them like any other node
        self.mk = {None: ir.Node, "len": _SizedNode, "bool": _FalseNode}[case.get("falsy_nodes")]
        n0 = case["n0"]
        made = []
        for i in range(n0):
            ins = [made[j].outputs[0] for j in case["deps"][i] if j < len(made)]
            attrs = []
            if case["nested"][i]:
                body_nodes = [self.mk("", "Relu", [], name=f"b{i}_{k}") for k in range(1 + i % 3)]
                if i % 2:
                    # a list of graphs in one attribute (AttributeType.GRAPHS), each with at least two nodes
                    more = [self.mk("", "Relu", [], name=f"c{i}_{k}") for k in range(2 + i % 2)]
                    attrs = [ir.AttrGraphs("branches", [ir.Graph([], [], nodes=body_nodes + [self.mk("", "Relu", [], name=f"b{i}_x")], name=f"case{i}a"), ir.Graph([], [], nodes=more, name=f"case{i}b")])]
                else:
                    attrs = [ir.AttrGraph("body", ir.Graph([], [], nodes=body_nodes, name=f"body{i}"))]
            op_type = "If" if attrs else "Add"
            if case.get("function") and case.get("ref_graph_attrs") and i % 3 != 1:
                # in a function body an attribute may refer to a (graph-valued) attribute parameter of the function:
                # such an attribute holds no graph, the recursive walk has nothing to descend into
                ref = ir.RefAttr(f"ref{i}", "graph_param" if i % 2 else "graphs_param", ir.AttributeType.GRAPH if i % 2 else ir.AttributeType.GRAPHS)
                attrs = [ref] + attrs if i % 4 < 2 else attrs + [ref]
            n = self.mk("", op_type, ins, attrs, name=f"n{i}")
            made.append(n)
        order = [made[p] for p in case["perm"]] if len(case["perm"]) == n0 else made
        self.g = ir.Graph([], [], nodes=order, name="G", opset_imports={"": 20})
        self.g2 = ir.Graph([], [], nodes=[], name="G2")
        self.fn = ir.Function("d", "f", "", graph=self.g, attributes=[]) if case.get("function") else None
        self.cont = self.fn if self.fn is not None else self.g
        self.nodes = list(made)
        self.M = list(order)  # model of g
        self.M2: list = []  # model of g2
        self.touch: dict = {}  # id(node) -> last touch time (in g)
        self.nested_touch: dict = {}
        self.inserted: dict = {}  # id(node) -> last insertion time into g
        self.ever_inserted = len(order)
        self.its: list[It] = []
        self.nid = {id(n): f"n{i}" for i, n in enumerate(made)}

    # ---------------------------------------------------------------- helpers
    def name(self, n) -> str:
        if n is None:
            return "END"
        return self.nid.get(id(n)) or getattr(n, "name", "?") or "?"

    def inc(self, k, n=1):
        self.stats[k] = self.stats.get(k, 0) + n

    def foreign_append(self, target, n, owner, owner_model) -> None:
        try:
            target.append(n)
        except ValueError:
            self.inc("foreign_append_refused")
        else:
            self.fail("foreign-node-accepted", f"append() accepted node {self.name(n)} although it belongs to graph {owner.name!r}; it is now listed by both graphs")
            return
        if n.graph is not owner or [id(x) for x in owner] != [id(x) for x in owner_model]:
            self.fail("foreign-node-accepted", f"the refused append() of node {self.name(n)} changed its owner graph {owner.name!r} or the node's graph pointer")

    def fail(self, clause, detail):
        if self.viol is None:
            self.viol = {"clause": clause, "detail": detail, "key": clause}

    def new_node(self):
        n = self.mk("", "Add", [], name=f"x{len(self.nodes)}")
        self.nid[id(n)] = f"x{len(self.nodes)}"
        self.nodes.append(n)
        return n

    def _pos(self, n):
        for i, x in enumerate(self.M):
            if x is n:
                return i
        return -1

    def _neighbour(self, n, reverse):
        i = self._pos(n)
        if i < 0:
            return None
        j = i - 1 if reverse else i + 1
        return self.M[j] if 0 <= j < len(self.M) else None

    # model primitives ---------------------------------------------------------
    def m_remove(self, n):
        """Node n leaves its place in M (removed or about to be re-inserted)."""
        self.time += 1
        for it in self.its:
            if it.done:
                continue
            if it.last is n and not it.last_touched:
                it.last_touched = True
                it.s = self._neighbour(n, it.reverse)
                it.s_valid = True
                it.t = self.time
                it.relevant = True
                self.inc("reach_cursor_node_removed_or_moved")
            elif it.last is not None and not it.last_touched and self._neighbour(it.last, it.reverse) is n:
                it.relevant = True
                self.inc("reach_cursor_successor_touched")
        self.touch[id(n)] = self.time
        i = self._pos(n)
        if i >= 0:
            del self.M[i]

    def m_insert_after(self, ip, n):
        """Insert n right after element ip (None = head)."""
        self.time += 1
        i = -1 if ip is None else self._pos(ip)
        self.M.insert(i + 1, n)
        self.inserted[id(n)] = self.time
        self.touch[id(n)] = self.time
        self.ever_inserted += 1
        for it in self.its:
            if it.done or it.last is None:
                continue
            if not it.last_touched and (self._neighbour(it.last, it.reverse) is n):
                it.relevant = True
                self.inc("reach_inserted_right_after_cursor")

    def m_insert_seq(self, ip, nodes):
        """The linked list's sequential insertion: ip is an element or None (head)."""
        for x in nodes:
            if x is ip:
                continue
            if self._pos(x) >= 0:
                self.m_remove(x)
            self.m_insert_after(ip, x)
            ip = x

    # picking ------------------------------------------------------------------
    def pick(self, a: int, b: int):
        mode = a % 8
        live = [it for it in self.its if not it.done]
        it = live[b % len(live)] if live else None
        if mode == 0 and it is not None and it.last is not None:
            return it.last
        if mode == 1 and it is not None and it.last is not None:
            nb = self._neighbour(it.last, it.reverse)
            if nb is not None:
                return nb
        if mode == 2 and it is not None and it.last is not None:
            nb = self._neighbour(it.last, not it.reverse)
            if nb is not None:
                return nb
        if mode in (3, 4) and self.M:
            return self.M[b % len(self.M)]
        if mode == 5:
            det = [n for n in self.nodes if n.graph is None]
            if det:
                return det[b % len(det)]
        if mode == 6 and it is not None:
            seen = [n for (_t, n) in it.log if n.graph is self.g or (n.graph is None and any(n is x for x in self.nodes))]
            if seen:
                return seen[b % len(seen)]
        return self.new_node()

    def pick_in(self, a: int, b: int):
        if not self.M:
            return None
        n = self.pick(a % 5 if a % 8 not in (0, 1, 2, 3, 4) else a, b)
        if self._pos(n) < 0:
            return self.M[b % len(self.M)]
        return n

    # ------------------------------------------------------------------- steps
    def do(self, step) -> None:
        kind = step[0]
        if kind == "new_it":
            self.new_it(IT_KINDS[step[1] % len(IT_KINDS)])
            return
        if kind == "step":
            live = [it for it in self.its if not it.done]
            if not live:
                return
            self.advance(live[step[1] % len(live)])
            return
        a, b, c = step[1], step[2], step[3]
        cont = self.cont
        try:
            if kind == "append":
                n = self.pick(a, b)
                if n.graph is self.g2:
                    if c % 3 == 0:
                        # an edit that must be refused: the node belongs to the other graph (no remove first)
                        self.foreign_append(cont, n, self.g2, self.M2)
                    self.trace.append((kind, "skip"))
                    return
                if c % 7 == 3 and n.graph is not None and self.fn is None:
                    # the same the other way round: G2 is asked to take a node that G still owns
                    self.foreign_append(self.g2, n, self.g, self.M)
                    return
                cont.append(n)
                last = self.M[-1] if self.M else None
                if last is not n:
                    self.m_insert_seq(last, [n])
            elif kind == "extend":
                ns = [self.pick(a + i, b + i * 7) for i in range(1 + c % 3)]
                ns = [n for n in ns if n.graph is not self.g2]
                cont.extend(ns)
                for n in ns:
                    last = self.M[-1] if self.M else None
                    if last is not n:
                        self.m_insert_seq(last, [n])
            elif kind in ("insert_before", "insert_after", "move_before", "move_after"):
                anchor = self.pick_in(a, b)
                if anchor is None:
                    return
                if kind.startswith("move"):
                    ns = [self.pick_in(c, b + 3)]
                else:
                    ns = [self.pick(c + i, b + 1 + i * 5) for i in range(1 + (c >> 4) % 3)]
                ns = [n for n in ns if n is not None and n.graph is not self.g2]
                if not ns:
                    return
                before = kind.endswith("before")
                if before:
                    i = self._pos(anchor)
                    ip = self.M[i - 1] if i > 0 else None
                    if c % 2 and len(ns) == 1:
                        cont.insert_before(anchor, ns[0])
                    else:
                        cont.insert_before(anchor, ns)
                else:
                    ip = anchor
                    if c % 2 and len(ns) == 1:
                        cont.insert_after(anchor, ns[0])
                    else:
                        cont.insert_after(anchor, ns)
                self.m_insert_seq(ip, ns)
            elif kind == "remove":
                n = self.pick_in(a, b)
                if n is None:
                    return
                cont.remove(n)
                self.m_remove(n)
            elif kind == "remove_many":
                ns = []
                for i in range(1 + c % 3):
                    n = self.pick_in(a + i, b + i * 3)
                    if n is not None and not any(n is x for x in ns):
                        ns.append(n)
                if not ns:
                    return
                cont.remove(ns)
                for n in ns:
                    self.m_remove(n)
            elif kind == "move_graph":
                # remove from G and append to G2, or bring one back
                if a % 2 and self.M2:
                    n = self.M2[b % len(self.M2)]
                    self.g2.remove(n)
                    self.M2 = [x for x in self.M2 if x is not n]
                    cont.append(n)
                    self.m_insert_seq(self.M[-1] if self.M else None, [n])
                else:
                    n = self.pick_in(a, b)
                    if n is None:
                        return
                    cont.remove(n)
                    self.m_remove(n)
                    self.g2.append(n)
                    self.M2.append(n)
            elif kind == "sort":
                cont.sort()
                self.time += 1
                for it in self.its:
                    if not it.done and it.last is not None and not it.last_touched:
                        it.last_touched = True
                        it.s = None
                        it.s_valid = False
                        it.t = self.time
                    if not it.done:
                        it.relevant = True
                for n in self.M:
                    self.touch[id(n)] = self.time
                    self.inserted[id(n)] = self.time
                self.ever_inserted += len(self.M)
                # nested bodies are re-linked too
                self.nested_touch["*"] = self.time
                self.M = list(self.g)
                self.inc("edit_sort")
            self.inc("edit_" + kind)
            self.trace.append((kind, "ok"))
        except Exception as e:  # noqa: BLE001
            # every edit issued here is valid by construction; a raise is a finding of its own
            self.fail("edit-raised", f"{kind} raised {type(e).__name__}: {e}")
            self.trace.append((kind, "raise", type(e).__name__))
        try:
            self.check_sequence()
        except Exception as e:  # noqa: BLE001
            self.fail("sequence-accessor-raised", f"len/index/iteration of the graph raised {type(e).__name__}: {e}")

    def new_it(self, kind: str) -> None:
        rev = kind in ("rev", "rec_rev", "fn_rev")
        rec = kind in ("rec_fwd", "rec_rev", "all_nodes")
        target = self.cont if kind.startswith("fn_") or self.fn is None else (self.cont if len(self.its) % 2 else self.g)
        if kind == "fwd" or kind == "fn_fwd":
            obj = iter(target)
        elif kind == "rev" or kind == "fn_rev":
            obj = reversed(target)
        elif kind == "rec_fwd":
            obj = iter(traversal.RecursiveGraphIterator(target))
        elif kind == "rec_rev":
            obj = iter(traversal.RecursiveGraphIterator(target, reverse=True))
        else:
            obj = self.g.all_nodes()
        it = It(len(self.its), kind, obj, rev, rec)
        it.start_time = self.time
        it.start_members = list(self.M)
        self.its.append(it)
        self.inc("iterators_" + kind)
        self.trace.append(("new_it", kind))

    def advance(self, it: It) -> None:
        it.steps += 1
        try:
            signal.setitimer(signal.ITIMER_REAL, 5.0)
            try:
                y = next(it.obj)
            finally:
                signal.setitimer(signal.ITIMER_REAL, 0)
            if y is None:
                self.fail("yielded-none", f"{it.kind} iterator #{it.idx} yielded None")
                it.done = True
                return
        except StopIteration:
            y = None
        except _Hang:
            self.fail("does-not-terminate", f"{it.kind} iterator #{it.idx}: a single next() did not return within 5 s (spinning inside the iterator)")
            it.done = True
            self.trace.append(("step", it.idx, "hang"))
            return
        except Exception as e:  # noqa: BLE001
            self.fail("iterator-raised", f"{it.kind} iterator #{it.idx}: next() raised {type(e).__name__}: {e}")
            it.done = True
            self.trace.append(("step", it.idx, "raise"))
            return
        self.trace.append(("step", it.idx, self.name(y)))
        top = y is None or self._pos(y) >= 0 or not it.recursive
        if y is not None and not top:
            # nested node of a recursive iterator: it must belong to a body reachable from G now
            g = y.graph
            if g is None or not any(n is y for n in g):
                self.fail("yielded-non-member", f"{it.kind} #{it.idx} yielded nested node {self.name(y)} that is in no graph")
            it.log.append((self.time, y))
            return
        # ---- exact-next rules on the top-level sequence
        L = it.last
        if L is None:
            want = (self.M[-1] if it.reverse else self.M[0]) if self.M else None
            if y is not want:
                self.fail("first-yield", f"{it.kind} #{it.idx}: first yield is {self.name(y)}, the sequence starts with {self.name(want)}")
        elif not it.last_touched:
            want = self._neighbour(L, it.reverse)
            if y is not want:
                self.fail("exact-next", f"{it.kind} #{it.idx}: after {self.name(L)} (still in place) expected {self.name(want)}, got {self.name(y)}; sequence={[self.name(n) for n in self.M]}")
        elif it.s_valid and it.s is not None and self.touch.get(id(it.s), -1) < it.t:
            ok = y is it.s or (y is not None and self.inserted.get(id(y), -1) >= it.t)
            if not ok:
                self.fail("resume-after-removed-current", f"{it.kind} #{it.idx}: current node {self.name(L)} was removed/moved when {self.name(it.s)} followed it (untouched since); got {self.name(y)}")
            else:
                self.inc("reach_resumed_from_tombstone")
        if y is None:
            it.done = True
            self.finish(it)
            return
        if self._pos(y) < 0:
            self.fail("yielded-non-member", f"{it.kind} #{it.idx} yielded {self.name(y)} which is not in the sequence {[self.name(n) for n in self.M]}")
        it.log.append((self.time, y))
        it.last = y
        it.last_time = self.time
        it.last_touched = False
        it.s_valid = False

    def finish(self, it: It) -> None:
        # (3) nodes present at the start and never touched: exactly once, in order
        untouched = [n for n in it.start_members if self.touch.get(id(n), -1) <= it.start_time]
        seq = [n for (_t, n) in it.log if any(n is u for u in untouched)]
        want = list(reversed(untouched)) if it.reverse else untouched
        if len(seq) != len(want) or any(a is not b for a, b in zip(seq, want)):
            self.fail("untouched-exactly-once-in-order", f"{it.kind} #{it.idx}: untouched start nodes {[self.name(n) for n in want]} were yielded as {[self.name(n) for n in seq]}")
        if it.recursive and "*" not in self.nested_touch:
            # nested nodes whose owner is untouched: exactly once each
            for owner in untouched:
                for attr in owner.attributes.values():
                    if attr.is_ref():
                        continue
                    bodies = [attr.value] if attr.type == ir.AttributeType.GRAPH else (list(attr.value) if attr.type == ir.AttributeType.GRAPHS else [])
                    for body in bodies:
                        members = list(body)
                        for bn in members:
                            cnt = sum(1 for (_t, n) in it.log if n is bn)
                            if cnt != 1:
                                self.fail("nested-exactly-once", f"{it.kind} #{it.idx}: nested node {bn.name} of untouched {self.name(owner)} yielded {cnt} times")
                        # ... and in the order of their own graph (backwards for a backward walk)
                        got = [n for (_t, n) in it.log if any(n is m for m in members)]
                        want_b = list(reversed(members)) if it.reverse else members
                        if len(got) == len(want_b) and any(a is not b for a, b in zip(got, want_b)):
                            self.fail("nested-order", f"{it.kind} #{it.idx}: the nodes of {body.name!r} (never touched) were yielded as {[n.name for n in got]}, graph order {'reversed ' if it.reverse else ''}is {[n.name for n in want_b]}")
        if it.relevant:
            self.inc("iterators_finished_after_relevant_edit")
        self.inc("iterators_finished")

    def check_sequence(self) -> None:
        g = self.g
        M = self.M
        cont = self.cont
        listing = list(cont)
        if len(listing) != len(M) or any(a is not b for a, b in zip(listing, M)):
            self.fail("sequence-vs-model", f"list(graph)={[self.name(n) for n in listing]} but the edits so far give {[self.name(n) for n in M]}")
            self.M = listing  # resynchronise so that one defect is reported once
            return
        if len(cont) != len(M) or len(g) != len(M):
            self.fail("len-vs-model", f"len()={len(cont)} model={len(M)}")
        rev = list(reversed(cont))
        if any(a is not b for a, b in zip(rev, reversed(M))) or len(rev) != len(M):
            self.fail("reversed-vs-model", "reversed(graph) is not the mirror of the sequence")
        k = len(M)
        # random access, not a sweep: every index in an order that changes from step to step (an implementation may keep
        # a cursor between lookups), non-negative and negative spellings separately; the last lookup is a small index
        import random as _random

        order = list(range(k))
        _random.Random(self.time * 7919 + k).shuffle(order)
        for i in order[:6]:
            got = cont[i]
            if got is not M[i]:
                self.fail("index-vs-model", f"graph[{i}] is {self.name(got)}, the sequence has {self.name(M[i])} there")
                break
        for i in order[:3]:
            if cont[i - k] is not M[i]:
                self.fail("index-vs-model", f"graph[{i - k}] disagrees with the sequence")
                break
        if k > 1 and cont[1 + (self.time % 2 if k > 2 else 0)] is not M[1 + (self.time % 2 if k > 2 else 0)]:
            self.fail("index-vs-model", "graph[1 or 2] disagrees with the sequence")
        for i in (k, -k - 1):
            try:
                cont[i]
                self.fail("index-vs-model", f"graph[{i}] did not raise for a sequence of {k}")
            except IndexError:
                pass
        if k >= 2 and tuple(cont[1:k]) != tuple(M[1:k]) and any(a is not b for a, b in zip(cont[1:k], M[1:k])):
            self.fail("slice-vs-model", "graph[1:k] disagrees with the sequence")
        if M and M[0] not in cont:
            self.fail("contains-vs-model", "member reported as not contained")
        det = [n for n in self.nodes if n.graph is None]
        if det and det[0] in cont:
            self.fail("contains-vs-model", "detached node reported as contained")

    def drain(self) -> None:
        for it in self.its:
            if it.done:
                continue
            nested_total = sum(len(list(a.value)) for n in self.nodes for a in n.attributes.values() if a.type == ir.AttributeType.GRAPH and not a.is_ref()) + sum(len(list(g_)) for n in self.nodes for a in n.attributes.values() if a.type == ir.AttributeType.GRAPHS and not a.is_ref() for g_ in a.value)
            cap = self.ever_inserted + nested_total * 4 + 2
            k = 0
            while not it.done and k <= cap:
                self.advance(it)
                k += 1
                if self.viol is not None:
                    return
            if not it.done:
                self.fail("does-not-terminate", f"{it.kind} #{it.idx} still yields after {cap} steps with no edits")
                return


def run_case(case: dict) -> dict:
    with _knobs.interpreter(case):
        return _run_case(case)


def _run_case(case: dict) -> dict:
    res = {"violation": None, "error": None, "stats": {}, "steps": 0, "distinct": [], "states": [], "case": case}
    sim = Sim(case)
    steps = case["steps"]
    for i, st in enumerate(steps):
        sim.do(st)
        if sim.viol is not None:
            c = copy.deepcopy(case)
            c["steps"] = steps[: i + 1]
            res["case"] = c
            break
    if sim.viol is None:
        sim.drain()
    res["stats"] = sim.stats
    res["steps"] = len(sim.trace)
    res["event_digest"] = digest(sim.trace)
    sim.inc("runs_with_iterators" if sim.its else "runs_without_iterators")
    res["stats"] = sim.stats
    if sim.viol is not None:
        res["violation"] = sim.viol
        return res
    if any(it.relevant for it in sim.its):
        res["distinct"] = [digest(sim.trace)]
    res["sample"] = {"n0": case["n0"], "function": case.get("function"), "trace": [":".join(str(x) for x in t) for t in sim.trace][:70]}
    return res


def shrink_candidates(case: dict, violation: dict):
    steps = case["steps"]
    n = len(steps)
    for width in (8, 4, 2, 1):
        for lo in range(0, n, width):
            hi = min(n, lo + width)
            if hi - lo >= n:
                continue
            c = copy.deepcopy(case)
            c["steps"] = steps[:lo] + steps[hi:]
            yield c
    if case["n0"] > 0:
        c = copy.deepcopy(case)
        k = case["n0"] - 1
        c["n0"] = k
        c["nested"] = case["nested"][:k]
        c["deps"] = [[j for j in d if j < k] for d in case["deps"][:k]]
        c["perm"] = [p for p in case["perm"] if p < k]
        yield c
    if any(case["nested"]):
        c = copy.deepcopy(case)
        c["nested"] = [False] * len(case["nested"])
        yield c
    if case.get("function"):
        c = copy.deepcopy(case)
        c["function"] = False
        yield c


def finding_key(case: dict, violation: dict) -> str:
    return violation.get("key") or violation.get("clause")


def check_reach(agg: dict, tier: str):
    st = agg["stats"]
    need = ["reach_cursor_node_removed_or_moved", "reach_resumed_from_tombstone", "reach_inserted_right_after_cursor", "reach_cursor_successor_touched", "iterators_finished_after_relevant_edit", "edit_sort", "edit_move_graph", "iterators_rec_fwd", "iterators_rev"]
    missing = [k for k in need if not st.get(k)]
    return missing if agg["runs"] > 500 else []
