"""Structural (isomorphism) comparison of two IR models through public accessors.

Identities become structure: values are numbered in traversal order and node
inputs refer to those numbers, so two models compare equal iff they have the
same node order, operator identifiers, connectivity (optional inputs, values
shared between scopes, captured outer-scope values), names, types, shapes,
attributes, initializer and constant bytes, doc strings, serializable metadata,
functions, opset imports and device configurations - modulo the documented
normalisations (None == "" for names and doc strings, trailing unnamed node
outputs trimmed, tensor class).
"""

from __future__ import annotations

import dataclasses

import numpy as np
import onnx_ir as ir


def _s(x):
    return x if x else ""


def _type(t):
    if t is None:
        return None
    inner = getattr(t, "elem_type", None)
    if inner is None or isinstance(inner, ir.DataType):
        return (type(t).__name__, int(t.dtype), _s(getattr(t, "denotation", None)))
    return (type(t).__name__, _type(inner), _s(getattr(t, "denotation", None)))


def _dim(d):
    if isinstance(d, int):
        return d
    return ("sym", getattr(d, "value", None))


def _shape(s):
    if s is None:
        return None
    dims = tuple(_dim(d) for d in s.dims)
    den = tuple(_s(s.get_denotation(i)) for i in range(len(dims)))
    return (dims, den)


def _tensor(t, with_name=True):
    if t is None:
        return None
    try:
        if t.dtype == ir.DataType.STRING:
            data = tuple(t.string_data()) if hasattr(t, "string_data") else bytes(t.tobytes())
        else:
            data = bytes(t.tobytes())
            # the element values as well, laid out by this harness (not by the library's own byte path)
            try:
                arr = t.numpy()
                if arr.dtype.byteorder == ">":
                    arr = arr.astype(arr.dtype.newbyteorder("<"))
                data = (data, np.ascontiguousarray(arr).tobytes())
            except Exception as e:  # noqa: BLE001
                data = (data, ("no-array", type(e).__name__))
    except Exception as e:  # noqa: BLE001
        data = ("unreadable", type(e).__name__)
    return (_s(t.name) if with_name else "", int(t.dtype), tuple(_dim(d) for d in t.shape.dims), data, _s(t.doc_string), tuple(sorted((t.metadata_props or {}).items())))


class Canon:
    def __init__(self, ir_version=None, attr_tensor_names=True) -> None:
        self.attr_tensor_names = attr_tensor_names
        self.ids: dict[int, int] = {}
        self.ir_version = ir_version  # applies to nested graphs as well (device configurations exist from 11 on)

    def vid(self, v, declare=False):
        if v is None:
            return None
        k = id(v)
        if k not in self.ids:
            self.ids[k] = len(self.ids)
            return ("new" if not declare else "def", self.ids[k], _s(v.name))
        return ("ref", self.ids[k])

    def value_desc(self, v, tensor=None):
        t, sh = _type(v.type), _shape(v.shape)
        if tensor is not None:
            # documented normalisation: value-info is generated for initializers from their tensor
            if t is None:
                t = ("TensorType", int(tensor.dtype), "")
            if sh is None:
                dims = tuple(_dim(d) for d in tensor.shape.dims)
                sh = (dims, tuple("" for _ in dims))
        if t is None:
            # a shape lives inside the type in the proto: without a type it cannot be represented
            sh = None
        return (_s(v.name), t, sh, _s(v.doc_string), tuple(sorted(v.metadata_props.items())))

    def dc(self, x):
        if isinstance(x, ir.Value):
            return self.vid(x)
        if isinstance(x, ir.ModelConfiguration):
            return ("cfg", x.name, x.num_devices, tuple(x.device_names))
        if dataclasses.is_dataclass(x) and not isinstance(x, type):
            return (type(x).__name__,) + tuple((f.name, self.dc(getattr(x, f.name))) for f in dataclasses.fields(x))
        if isinstance(x, (tuple, list)):
            return tuple(self.dc(y) for y in x)
        if isinstance(x, ir.SymbolicDim):
            return ("sym", x.value)
        return x

    def attr(self, a):
        if a.is_ref():
            return (a.name, int(a.type), ("ref", a.ref_attr_name), _s(a.doc_string))
        t = a.type
        if t == ir.AttributeType.GRAPH:
            val = self.graph(a.value, self.ir_version)
        elif t == ir.AttributeType.GRAPHS:
            val = tuple(self.graph(g, self.ir_version) for g in a.value)
        elif t == ir.AttributeType.TENSOR:
            val = _tensor(a.value, self.attr_tensor_names)
        elif t == ir.AttributeType.TENSORS:
            val = tuple(_tensor(x, self.attr_tensor_names) for x in a.value)
        elif t in (ir.AttributeType.TYPE_PROTO,):
            val = repr(a.value)
        elif t in (ir.AttributeType.TYPE_PROTOS,):
            val = tuple(repr(x) for x in a.value)
        else:
            v = a.value
            if isinstance(v, (list, tuple)):
                val = tuple(x.decode("utf-8", "replace") if isinstance(x, bytes) else x for x in v)
            else:
                val = v.decode("utf-8", "replace") if isinstance(v, bytes) else v
            if t in (ir.AttributeType.FLOAT,):
                val = repr(float(val))
            elif t in (ir.AttributeType.FLOATS,):
                val = tuple(repr(float(x)) for x in val)
        return (a.name, int(t), val, _s(a.doc_string))

    def node(self, n, ir_version=None):
        ins = tuple(self.vid(v) for v in n.inputs)
        outs = list(n.outputs)
        # trailing unnamed outputs are trimmed by serialization
        while outs and not outs[-1].name:
            outs.pop()
        out_desc = []
        for o in outs:
            out_desc.append((self.vid(o, declare=True), self.value_desc(o)))
        attrs = tuple(sorted((self.attr(a) for a in n.attributes.values()), key=lambda x: x[0]))
        dcs = self.dc(tuple(n.device_configurations)) if (ir_version is None or ir_version >= 11) else ()
        return (_s(n.domain), n.op_type, _s(n.overload), _s(n.name), ins, tuple(out_desc), attrs, _s(n.doc_string), tuple(sorted(n.metadata_props.items())), dcs)

    def graph(self, g, ir_version=None):
        inputs = tuple((self.vid(v, declare=True), self.value_desc(v)) for v in g.inputs)
        inits = []
        for k, v in g.initializers.items():
            inits.append((k, self.vid(v, declare=True), self.value_desc(v, v.const_value), _tensor(v.const_value, with_name=False)))  # an initializer tensor is named by its value (a shared tensor object carries only one of the names)
        nodes = tuple(self.node(n, ir_version) for n in g)
        outputs = tuple((self.vid(v), self.value_desc(v)) for v in g.outputs)
        return (_s(g.name), inputs, tuple(inits), nodes, outputs, _s(g.doc_string), tuple(sorted(g.metadata_props.items())))

    def function(self, f, ir_version=None):
        inputs = tuple((self.vid(v, declare=True), self.value_desc(v)) for v in f.inputs)
        nodes = tuple(self.node(n, ir_version) for n in f)
        outputs = tuple((self.vid(v), self.value_desc(v)) for v in f.outputs)
        attrs = tuple(sorted((self.attr(a) for a in f.attributes.values()), key=lambda x: x[0]))
        return (f.domain, f.name, _s(f.overload), inputs, nodes, outputs, attrs, _s(f.doc_string), tuple(sorted(f.opset_imports.items())), tuple(sorted(f.metadata_props.items())))


def canon_model(m, attr_tensor_names=True) -> tuple:
    """attr_tensor_names=False: leave the own names of attribute tensors out (used when one tensor object is shared by
    differently named initializers AND an attribute: the object has a single name field, the proto one name per use)."""
    irv = m.ir_version
    c = Canon(irv, attr_tensor_names)
    main = c.graph(m.graph, irv)
    fns = []
    for key, f in m.functions.items():
        fc = Canon(irv, attr_tensor_names)
        fns.append((tuple(key), fc.function(f, irv)))
    dcs = c.dc(tuple(m.device_configurations)) if irv >= 11 else ()
    return (
        irv,
        _s(m.producer_name),
        _s(m.producer_version),
        _s(m.domain),
        m.model_version,
        _s(m.doc_string),
        tuple(sorted(m.opset_imports.items())),
        tuple(sorted(m.metadata_props.items())),
        main,
        tuple(fns),
        dcs,
    )


MODEL_FIELDS = ("ir_version", "producer_name", "producer_version", "domain", "model_version", "doc_string", "opset_imports", "metadata_props", "graph", "functions", "device_configurations")
GRAPH_FIELDS = ("name", "inputs", "initializers", "nodes", "outputs", "doc_string", "metadata_props")
NODE_FIELDS = ("domain", "op_type", "overload", "name", "inputs", "outputs", "attributes", "doc_string", "metadata_props", "device_configurations")


def first_difference(a, b, path="model") -> str | None:
    if a == b:
        return None
    if isinstance(a, tuple) and isinstance(b, tuple):
        if len(a) != len(b):
            return f"{path}: length {len(a)} vs {len(b)}"
        names = None
        if path == "model":
            names = MODEL_FIELDS
        elif path.endswith(".graph") or path.endswith("]graph"):
            names = GRAPH_FIELDS
        for i, (x, y) in enumerate(zip(a, b)):
            if x != y:
                sub = f"{path}.{names[i]}" if names and i < len(names) else f"{path}[{i}]"
                if sub.endswith(".nodes"):
                    if isinstance(x, tuple) and isinstance(y, tuple) and len(x) == len(y):
                        for j, (p, q) in enumerate(zip(x, y)):
                            if p != q:
                                for k, (pp, qq) in enumerate(zip(p, q)):
                                    if pp != qq:
                                        return f"{sub}[{j}].{NODE_FIELDS[k] if k < len(NODE_FIELDS) else k}: {str(pp)[:200]} vs {str(qq)[:200]}"
                d = first_difference(x, y, sub)
                return d or f"{sub}: {str(x)[:200]} vs {str(y)[:200]}"
    return f"{path}: {str(a)[:200]} vs {str(b)[:200]}"
