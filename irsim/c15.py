"""C15 — generated names never collide; name fixing yields unique names only; bulk rename is all-or-nothing.

Engine A histories (the C01 alphabet, biased to add / remove / re-add / rename
with explicit names shaped like generated ones) checked against a
never-shrinking per-graph name model; NameFixPass and rename_values are ops
inserted at arbitrary points.  See DESIGN.md section 6 (C15).
"""

from __future__ import annotations

import copy
import logging

import onnx_ir as ir
from onnx_ir.passes.common import NameFixPass

from irsim import ops, snapshot
from irsim.world import World
from simcore import knobs as _knobs
from simcore.prng import Streams, digest

logging.getLogger("onnx_ir").setLevel(logging.ERROR)

PROPERTY = "C15"
LEVEL = "exploration"
ops.AVOID_NODE_OUTPUTS_ON_GRAPH_INPUTS = True
TIERS = {
    "quick": {"max_runs": 3000, "optimize_runs": 600, "wall": 420, "optimize_wall": 180, "chunk": 60, "shrink_budget": 400, "shrink_wall": 60},
    "thorough": {"wall": 600, "optimize_wall": 90, "chunk": 200, "shrink_budget": 800, "shrink_wall": 240},
}
RULE = (
    "each run = one seeded history over the Engine A world (bootstrap + 20-70 ops) biased towards adding unnamed and explicitly named "
    "nodes/values (names shaped like generated ones: val_3, node_Add_0), removing and re-adding them to the same or another graph, renaming "
    "(swaps, cycles, collisions, '' for initializers) and running NameFixPass on the model at arbitrary points; a per-graph model of "
    "registered names only grows; distinct = digest of the final snapshot; non-trivial = at least one generated name, one NameFix run or one bulk rename was checked"
)
ASSUMPTIONS = [
    "'registered' is what the graph's add paths register: input/initializer names at construction, node and node-output names when a node is added; values appended to graph.inputs later are not registered (source TODO) and the model does not demand it; the model under-approximates (moves of nodes already present are not re-registered), which can only weaken the check",
    "'visible enclosing-scope values' = inputs and initializers of ancestor graphs and outputs of nodes that precede the owner node (values defined later are not visible in a topologically ordered model)",
    "'already unique' = no other value in the same top-level graph/function tree (resp. no other node of the same graph) carries the name before the pass",
]
REAL_STUB = {"real": ["onnx_ir._name_authority", "Graph add paths", "passes.common.NameFixPass", "convenience.rename_values", "Value.name setter"], "stub": [], "harness_extension_points": []}

ADD_OPS = {"new_node", "new_node_with_outputs", "new_node_subgraph", "new_graph", "append", "extend", "insert_before", "insert_after", "node_prepend", "node_append", "sort", "new_function", "new_model", "resize_outputs"}
RENAMING_OPS = {"value_name", "rename_values", "node_attrs", "init_setitem", "init_add", "init_register", "init_update", "init_setdefault", "init_dictapi", "replace_nodes_and_values", "namefix"}
WEIGHTS = dict(ops.WEIGHTS)
for k in ("new_node", "append", "extend", "insert_before", "insert_after", "remove"):
    WEIGHTS[k] = WEIGHTS[k] * 2
WEIGHTS["rename_values"] = 10
WEIGHTS["value_name"] = 8
WEIGHTS["new_node_subgraph"] = 4


def gen_case(run_seed: int, tier: str, index: int = 0) -> dict:
    r = Streams(run_seed).rng("workload")
    n = r.choice([20, 30, 45, 70])
    names = list(WEIGHTS)
    models = []
    for _ in range(3):
        models.append(
            {
                "seed": r.randrange(1 << 30),
                # values used only as node inputs and defined nowhere in the graph (e.g. constants not yet registered)
                "free_inputs": r.choice([0, 0, 1, 2]),
                "params": dict(
                    p_graphs=Streams(run_seed).rng("graphs-attr" + str(len(models))).choice([0.0, 0.0, 0.12, 0.25]), ref_graph_attrs=Streams(run_seed).rng("ref-graph-attrs" + str(len(models))).choice([0.0, 0.0, 0.6]), more_ops=Streams(run_seed).rng("more-ops").random() < 0.5, n_nodes=r.choice([1, 2, 4, 6, 10]), n_inputs=r.choice([0, 1, 2, 3]), n_inits=r.choice([0, 1, 2, 4]), n_outputs=r.choice([1, 2]),
                    n_functions=r.choice([0, 1, 2]), depth=r.choice([0, 1, 2]), typed=r.random() < 0.5, name_noise=r.choice([0.2, 0.4, 0.7, 1.0]), name_style=r.choice([0, 0, 1]),
                    unsorted=r.random() < 0.3, p_if=r.choice([0.1, 0.3]), init_as_input=r.choice([0.0, 0.3]),
                ),
            }
        )
    return {"property": PROPERTY, "warnings_error": _knobs.warnings_knob(run_seed), "name_generator": Streams(run_seed).rng("name-generator").choice([None, None, "op_out", "op_out", "const", "numbered"]), "run_seed": run_seed, "ops": ops.bootstrap_ops() + ops.gen_ops(r, n, names=names, weights=WEIGHTS), "models": models}


# --------------------------------------------------------------------- helpers
def _graph_values(g) -> list:
    """Values that belong to graph g (identity-deduplicated, deterministic order)."""
    out, seen = [], set()

    def add(v):
        if v is not None and id(v) not in seen:
            seen.add(id(v))
            out.append(v)

    for v in g.inputs:
        add(v)
    for v in g.outputs:
        add(v)
    if isinstance(g, ir.Graph):
        for v in g.initializers.values():
            add(v)
    for n in g:
        for v in n.outputs:
            add(v)
    return out


def _subgraphs_of(node) -> list:
    out = []
    for a in node.attributes.values():
        if not isinstance(a, ir.Attr) or a.is_ref():
            continue
        if a.type == ir.AttributeType.GRAPH and a.value is not None:
            out.append(a.value)
        elif a.type == ir.AttributeType.GRAPHS and a.value is not None:
            out.extend(a.value)
    return out


def _walk_scopes(top, visit, visible=None, depth=0, seen_graphs=None):
    """visit(graph, visible_values) for the graph-like and every nested graph (each graph object once)."""
    if seen_graphs is None:
        seen_graphs = set()
    if id(top) in seen_graphs or depth > 8:
        return
    seen_graphs.add(id(top))
    visible = list(visible or [])
    visit(top, visible)
    base = list(visible)
    for v in top.inputs:
        base.append(v)
    if isinstance(top, ir.Graph):
        for v in top.initializers.values():
            base.append(v)
    preceding = list(base)
    for n in top:
        for sg in _subgraphs_of(n):
            _walk_scopes(sg, visit, preceding, depth + 1, seen_graphs)
        for v in n.outputs:
            preceding.append(v)


def well_nested(model) -> bool:
    """Every nested graph has exactly one owner node and the nesting has no cycle."""
    owners: dict[int, int] = {}
    ok = [True]

    def rec(g, path):
        if id(g) in path or len(path) > 8:
            ok[0] = False
            return
        for n in g:
            for sg in _subgraphs_of(n):
                owners[id(sg)] = owners.get(id(sg), 0) + 1
                if owners[id(sg)] > 1:
                    ok[0] = False
                    return
                rec(sg, path | {id(g)})
                if not ok[0]:
                    return

    tops = [model.graph] + [f.graph for f in model.functions.values()]
    for t in tops:
        owners[id(t)] = owners.get(id(t), 0) + 1
    for t in tops:
        rec(t, frozenset())
        if not ok[0]:
            return False
    return all(c == 1 for c in owners.values())


def check_namefix(model, before_names: dict, before_tree_names: dict, node_names_before: dict) -> tuple | None:
    """Post-conditions of NameFixPass on a model.  Returns (clause, detail) or None."""
    tops = [model.graph] + list(model.functions.values())
    for top in tops:
        problems: list = []

        def visit(g, visible):
            vals = _graph_values(g)
            names: dict = {}
            for v in vals:
                if not v.name:
                    problems.append(("namefix-unnamed-value", f"a value of graph {g.name!r} has no name after the pass"))
                    continue
                if v.name in names:
                    problems.append(("namefix-duplicate-value-name", f"graph {g.name!r}: two values are named {v.name!r} after the pass"))
                names[v.name] = v
            vis_names = {v.name for v in visible if v.name and not any(v is x for x in vals)}
            for v in vals:
                if v.name in vis_names:
                    problems.append(("namefix-shadows-outer-value", f"graph {g.name!r}: value {v.name!r} has the name of a visible enclosing-scope value after the pass"))
            nn: dict = {}
            for n in g:
                if not n.name:
                    problems.append(("namefix-unnamed-node", f"graph {g.name!r}: a node has no name after the pass"))
                elif n.name in nn:
                    problems.append(("namefix-duplicate-node-name", f"graph {g.name!r}: two nodes are named {n.name!r} after the pass"))
                nn[n.name] = n
                for v in n.inputs:
                    if v is not None and not v.name:
                        problems.append(("namefix-unnamed-value", f"graph {g.name!r}: an input of node {n.name!r} has no name after the pass"))
            if isinstance(g, ir.Graph):
                for k, v in g.initializers.items():
                    if k != v.name:
                        problems.append(("namefix-initializer-key", f"graph {g.name!r}: initializer {v.name!r} stored under {k!r}"))

        _walk_scopes(top, visit)
        if problems:
            return problems[0]
    # names that were already unique are kept
    for vid, (v, old) in before_names.items():
        if old and before_tree_names.get(old, 0) == 1 and v.name != old:
            return ("namefix-renamed-unique-value", f"value {old!r} was the only value of that name in the model but was renamed to {v.name!r}")
    for nid, (n, old, cnt) in node_names_before.items():
        if old and cnt == 1 and n.name != old:
            return ("namefix-renamed-unique-node", f"node {old!r} was the only node of that name in its graph but was renamed to {n.name!r}")
    return None


def _strip_names(snap: dict) -> dict:
    out = {}
    for key, val in snap.items():
        kind = key[0]
        if kind == "v":
            out[key] = val[1:]
        elif kind == "n":
            out[key] = val[1:]
        elif kind == "g":
            lst = list(val)
            lst[5] = tuple(ref for (_k, ref) in val[5])  # initializer keys are names
            lst[9] = None  # name authority
            out[key] = tuple(lst)
        elif kind == "t":
            out[key] = (val[0],) + tuple(val[2:])
        else:
            out[key] = val
    return out


def op_namefix(w: World, a, b, c, d):
    m = w.pick(w.models, a)
    if m is None:
        return None
    # one long-lived pass object per history (a pass object may be applied any number of times)
    nf = w.__dict__.get("_namefix_pass")
    if nf is None:
        nf = w.__dict__["_namefix_pass"] = NameFixPass()
    return nf(m)


ops.OPS.setdefault("namefix", op_namefix)


class _OpOutNames:
    """A naming scheme as users write them: `<Op>_out` for the output of a single-output node, `<Op>_out_<i>` for the
    i-th output of a multi-output node (preferred names can equal each other's numbered form)."""

    def generate_node_name(self, node) -> str:
        return node.name or node.op_type or "node"

    def generate_value_name(self, value) -> str:
        p = value.producer()
        if p is None:
            return value.name or "in"
        base = f"{p.op_type}_out"
        return base if len(p.outputs) == 1 else f"{base}_{value.index()}"


class _ConstantNames:
    def generate_node_name(self, node) -> str:
        return "n"

    def generate_value_name(self, value) -> str:
        return "x"


class _NumberedNames:
    """Preferred names that already look numbered (`v_1`, `node_1`, `v_1_1`)."""

    def generate_node_name(self, node) -> str:
        return "node_1" if len(node.inputs) % 2 else "node"

    def generate_value_name(self, value) -> str:
        k = value.index() or 0
        return ["v_1", "v", "v_1_1"][k % 3] if value.producer() is not None else "v_1"


def _make_name_generator(kind):
    return {"op_out": _OpOutNames, "const": _ConstantNames, "numbered": _NumberedNames}[kind]() if kind else None


def run_namefix_on_generated(case: dict, stats: dict):
    """Part B: NameFixPass on well-formed generated models with missing / duplicated names."""
    import random

    from irsim import modelgen

    def inc(k, n=1):
        stats[k] = stats.get(k, 0) + n

    found: list = []
    shared_pass = NameFixPass(name_generator=_make_name_generator(case.get("name_generator")))  # the same pass object is applied to every model of the case
    if case.get("name_generator"):
        inc("namefix_custom_generator_" + case["name_generator"])
    for mi, spec in enumerate(case.get("models", [])):
        rng = random.Random(spec["seed"])
        suffix = "|unsorted-model" if spec["params"].get("unsorted") else ""
        model = modelgen.gen_model(rng, modelgen.Params(**spec["params"]))
        if spec.get("free_inputs"):
            frng = random.Random(spec["seed"] ^ 0x5EED)
            all_nodes = [n for top in [model.graph] + list(model.functions.values()) for n in ir.traversal.RecursiveGraphIterator(top)]
            names = sorted({v.name for n in all_nodes for v in list(n.inputs) + list(n.outputs) if v is not None and v.name})
            for k in range(spec["free_inputs"]):
                cands = [n for n in all_nodes if len(n.inputs) > 0]
                if not cands:
                    break
                n = frng.choice(cands)
                base = frng.choice(names) if names else "v"
                nm = frng.choice([base + "_1", base + "_2", "v_1", "v_2", f"free_{k}", base + "_1_1"])
                n.replace_input_with(frng.randrange(len(n.inputs)), ir.Value(name=nm))
                inc("namefix_free_input_values")
        def one_round(model=model, mi=mi, suffix=suffix):
            w = World()
            w.reg(model)
            before_snap = snapshot.snapshot(w)
            bn: dict = {}
            nb: dict = {}
            for top in [model.graph] + list(model.functions.values()):

                def visit(g, visible):
                    for v in _graph_values(g):
                        bn.setdefault(id(v), (v, v.name))
                    cnt: dict = {}
                    for n in g:
                        cnt[n.name] = cnt.get(n.name, 0) + 1
                        for v in n.inputs:
                            if v is not None:
                                bn.setdefault(id(v), (v, v.name))
                    for n in g:
                        nb[id(n)] = (n, n.name, cnt[n.name])

                _walk_scopes(top, visit)
            tree_names: dict = {}
            for _v, nm in bn.values():
                if nm:
                    tree_names[nm] = tree_names.get(nm, 0) + 1
            inc("namefix_models")
            if any(c > 1 for c in tree_names.values()):
                inc("namefix_models_with_duplicate_value_names")
            if any(not nm for _v, nm in bn.values()):
                inc("namefix_models_with_missing_value_names")
            try:
                pr = shared_pass(model)
            except Exception as e:  # noqa: BLE001
                found.append({"clause": "namefix-raised", "detail": f"model {mi}: NameFixPass raised {type(e).__name__}: {str(e)[:300]}", "key": f"namefix-raised|{type(e).__name__}{suffix}", "model": mi})
                return False
            inc("namefix_checked")
            problem = check_namefix(model, bn, tree_names, nb)
            if problem is not None:
                found.append({"clause": problem[0], "detail": f"model {mi}: " + problem[1], "key": problem[0] + suffix, "model": mi})
                return False
            after = snapshot.snapshot(w)
            a2, b2 = _strip_names(before_snap), _strip_names(after)
            if a2 != b2:
                d = snapshot.diff(a2, b2)
                only_init_order = all(f == "initializers" and sorted(map(str, x)) == sorted(map(str, y)) for (_k, f, x, y) in d)
                clause = "namefix-reorders-initializers" if only_init_order else "namefix-changed-more-than-names"
                found.append({"clause": clause, "detail": f"model {mi}: NameFixPass changed something other than names: {str(d[:2])[:400]}", "key": clause, "model": mi})
            if before_snap != after:
                inc("namefix_modified")
            if bool(pr.modified) != (before_snap != after):
                inc("diag_namefix_modified_flag_inaccurate")
            return True

        ok = one_round()
        # the same pass object applied again to the same model after the names were disturbed again
        # (values the first application has already processed lose or share their names)
        if ok and rng.random() < 0.6:
            vals = []
            for top in [model.graph] + list(model.functions.values()):
                _walk_scopes(top, lambda g, visible: vals.extend(v for v in _graph_values(g) if not any(v is x for x in vals)))
            nodes_ = [n for top in [model.graph] + list(model.functions.values()) for n in ir.traversal.RecursiveGraphIterator(top)]
            for _k in range(rng.choice([1, 2, 3])):
                if not vals:
                    break
                v = rng.choice(vals)
                how = rng.random()
                try:
                    if how < 0.5:
                        v.name = rng.choice(vals).name  # duplicate another value's name
                    elif how < 0.8 and not v.is_initializer():
                        v.name = None if rng.random() < 0.5 else ""
                    elif nodes_:
                        rng.choice(nodes_).name = rng.choice(nodes_).name if rng.random() < 0.6 else None
                except ValueError:
                    pass  # e.g. an initializer name collision is refused
            inc("namefix_second_application_same_pass_object")
            one_round()
    return found


def run_case(case: dict) -> dict:
    with _knobs.interpreter(case):
        return _run_case(case)


def _run_case(case: dict) -> dict:
    stats: dict = {}
    res = {"violation": None, "error": None, "stats": stats, "steps": 0, "distinct": [], "states": [], "case": case}

    def inc(k, n=1):
        stats[k] = stats.get(k, 0) + n

    w = World()
    seen_v: dict[int, set] = {}
    seen_n: dict[int, set] = {}
    trace = []
    viol = None
    checked = 0
    for i, op in enumerate(case["ops"]):
        w.close()
        # ---- before
        names_v = {id(v): v.name for v in w.values}
        names_n = {id(n): n.name for n in w.nodes}
        graph_of_node = {id(n): n.graph for n in w.nodes}
        known_graphs = {id(g) for g in w.graphs}
        before_snap = None
        nf_before = None
        rn_args = None
        if op[0] == "namefix":
            m = w.pick(w.models, op[1])
            if m is not None and not well_nested(m):
                # cyclic or shared nesting is not a model; running the pass on it proves nothing
                inc("namefix_skipped_illformed_nesting")
                trace.append(("namefix", "skipped", None))
                continue
            if m is not None:
                before_snap = snapshot.snapshot(w)
                tree_names: dict = {}
                bn: dict = {}
                nb: dict = {}
                for top in [m.graph] + list(m.functions.values()):
                    def visit(g, visible, _tn=None):
                        for v in _graph_values(g):
                            bn.setdefault(id(v), (v, v.name))
                        cnt: dict = {}
                        for n in g:
                            cnt[n.name] = cnt.get(n.name, 0) + 1
                            for v in n.inputs:
                                if v is not None:
                                    bn.setdefault(id(v), (v, v.name))
                        for n in g:
                            nb[id(n)] = (n, n.name, cnt[n.name])
                    local: dict = {}
                    _walk_scopes(top, visit)
                    # name multiplicity per top-level tree
                for (_v, nm) in bn.values():
                    if nm:
                        tree_names[nm] = tree_names.get(nm, 0) + 1
                nf_before = (m, bn, tree_names, nb)
                _ = local
        elif op[0] == "rename_values":
            before_snap = snapshot.snapshot(w)
        w.last_passed = []
        r = ops.apply_op(w, op)
        trace.append((op[0], r[0], r[1] if r[0] == "raise" else None))
        inc(("ok_" if r[0] == "ok" else "raise_") + op[0])
        w.close()
        # ---- generated names / explicit names
        if op[0] not in RENAMING_OPS:
            assigned: dict[int, list] = {}
            for n in w.nodes:
                old = names_n.get(id(n), "<new>")
                g = n.graph
                if old == "<new>":
                    continue
                if old is None and n.name is not None and g is not None:
                    inc("generated_node_names")
                    checked += 1
                    if n.name in seen_n.get(id(g), set()):
                        viol = ("generated-node-name-collides", f"op {i} {op[0]}: node got the generated name {n.name!r}, which graph {g.name!r} had registered before")
                    assigned.setdefault(id(g), []).append(("n", n.name))
                elif old is not None and n.name != old:
                    viol = ("explicit-node-name-altered", f"op {i} {op[0]}: node name {old!r} became {n.name!r}")
            for v in w.values:
                old = names_v.get(id(v), "<new>")
                if old == "<new>":
                    continue
                p = v.producer()
                g = p.graph if p is not None else v.graph
                if old is None and v.name is not None and g is not None:
                    inc("generated_value_names")
                    checked += 1
                    if v.name in seen_v.get(id(g), set()):
                        viol = ("generated-value-name-collides", f"op {i} {op[0]}: value got the generated name {v.name!r}, which graph {g.name!r} had registered before")
                    assigned.setdefault(id(g), []).append(("v", v.name))
                elif old is not None and v.name != old:
                    viol = ("explicit-value-name-altered", f"op {i} {op[0]}: value name {old!r} became {v.name!r}")
            for gid, lst in assigned.items():
                if len(set(lst)) != len(lst):
                    viol = ("generated-names-collide-in-one-call", f"op {i} {op[0]}: the same generated name was assigned twice: {lst}")
        # objects created by this very op with name None -> generated immediately (constructors with graph=)
        if op[0] == "new_node" and r[0] == "ok" and w.last_new is not None:
            n, name_arg = w.last_new
            g = n.graph
            if g is not None and id(n) not in names_n:
                sn0 = seen_n.get(id(g), set())
                sv0 = seen_v.get(id(g), set())
                if name_arg is None:
                    inc("generated_node_names")
                    checked += 1
                    if n.name is None or n.name in sn0:
                        viol = ("generated-node-name-collides", f"op {i} new_node(graph=...): node got the generated name {n.name!r}, which graph {g.name!r} had registered before")
                elif n.name != name_arg:
                    viol = ("explicit-node-name-altered", f"op {i} new_node(graph=...): explicit name {name_arg!r} became {n.name!r}")
                outs = [v.name for v in n.outputs]
                inc("generated_value_names", len(outs))
                for nm in outs:
                    if nm is None or nm in sv0:
                        viol = ("generated-value-name-collides", f"op {i} new_node(graph=...): output got the generated name {nm!r}, which graph {g.name!r} had registered before")
                if len(set(outs)) != len(outs):
                    viol = ("generated-names-collide-in-one-call", f"op {i} new_node(graph=...): outputs {outs}")
        # ---- registration model (only grows)
        for g in w.graphs:
            if id(g) not in known_graphs:
                sv = seen_v.setdefault(id(g), set())
                for v in list(g.inputs) + list(g.initializers.values()):
                    if v.name:
                        sv.add(v.name)
            sv = seen_v.setdefault(id(g), set())
            sn = seen_n.setdefault(id(g), set())
            # a node that the call handed to this graph - also one that was in it already (a move, or sort(), which hands
            # every node to its graph again) - has its current names registered
            passed_here = {id(n) for n in (w.last_passed if r[0] == "ok" else []) if n is not None and n.graph is g}
            if passed_here:
                inc("names_registered_by_move_or_sort", len(passed_here))
            for n in g:
                if graph_of_node.get(id(n), "<new>") is not g or id(n) in passed_here:
                    if n.name:
                        sn.add(n.name)
                    for v in n.outputs:
                        if v.name:
                            sv.add(v.name)
        # ---- NameFix post-conditions
        if nf_before is not None:
            m, bn, tree_names, nb = nf_before
            if r[0] == "raise":
                viol = ("namefix-raised", f"op {i}: NameFixPass raised {r[1]}: {str(r[2])[:300]}")
            else:
                checked += 1
                inc("namefix_checked")
                pr = r[1]
                problem = check_namefix(m, bn, tree_names, nb)
                if problem is not None:
                    viol = problem
                else:
                    after = snapshot.snapshot(w)
                    a2, b2 = _strip_names(before_snap), _strip_names(after)
                    if a2 != b2:
                        d = snapshot.diff({k: v for k, v in a2.items()}, {k: v for k, v in b2.items()})
                        viol = ("namefix-changed-more-than-names", f"op {i}: NameFixPass changed something other than names: {str(d[:2])[:400]}")
                    else:
                        changed = before_snap != after
                        if changed:
                            inc("namefix_modified")
                        if bool(pr.modified) != changed:
                            inc("diag_namefix_modified_flag_inaccurate")
        # ---- bulk rename: completely or not at all
        if op[0] == "rename_values":
            checked += 1
            after = snapshot.snapshot(w)
            if r[0] == "raise":
                inc("rename_rejected")
                if after != before_snap:
                    d = snapshot.diff(before_snap, after)
                    viol = ("rename-partial", f"op {i}: rename_values raised {r[1]} but state changed: {str(d[:2])[:400]}")
            else:
                inc("rename_applied")
                for g in w.graphs:
                    for k, v in g.initializers.items():
                        if k != v.name:
                            viol = ("rename-initializer-key", f"op {i}: after rename_values initializer {v.name!r} is stored under {k!r}")
        if viol is not None:
            c = copy.deepcopy(case)
            c["ops"] = case["ops"][: i + 1]
            res["case"] = c
            res["violation"] = {"clause": viol[0], "detail": viol[1], "key": viol[0]}
            break
    res["steps"] = len(trace)
    res["event_digest"] = digest(trace)
    if viol is None:
        found = run_namefix_on_generated(case, stats)
        if found:
            res["violations"] = found
            v2 = found[0]
            c = copy.deepcopy(case)
            c["ops"] = []
            c["models"] = [case["models"][v2["model"]]]
            res["case"] = c
            res["violation"] = v2
            return res
        checked += stats.get("namefix_checked", 0)
    if viol is None and checked:
        try:
            res["distinct"] = [digest(sorted(snapshot.snapshot(w, tensors=False).items()))]
        except Exception:  # noqa: BLE001
            pass
    res["sample"] = {"ops": [f"{t[0]}:{t[1]}" for t in trace][:70]}
    return res


def shrink_candidates(case: dict, violation: dict):
    if not case["ops"] and case.get("models"):
        spec = case["models"][0]
        for val in (0, 1):
            if spec.get("free_inputs", 0) > val:
                c = copy.deepcopy(case)
                c["models"][0]["free_inputs"] = val
                yield c
        for key, vals in (("n_nodes", [1, 2, 4]), ("n_functions", [0]), ("depth", [0, 1]), ("n_inits", [0, 1]), ("n_inputs", [0, 1]), ("name_noise", [0.2]), ("unsorted", [False]), ("typed", [False])):
            for val in vals:
                if spec["params"].get(key) != val and (not isinstance(val, (int, float)) or isinstance(val, bool) or val < spec["params"].get(key, 0)):
                    c = copy.deepcopy(case)
                    c["models"][0]["params"][key] = val
                    yield c
        return
    op_list = case["ops"]
    n = len(op_list)
    last = n - 1
    for width in (16, 8, 4, 2, 1):
        if width >= n:
            continue
        for lo in range(0, last, width):
            hi = min(lo + width, last)
            if hi <= lo:
                continue
            c = copy.deepcopy(case)
            c["ops"] = op_list[:lo] + op_list[hi:]
            yield c


def finding_key(case: dict, violation: dict) -> str:
    return violation.get("key") or violation.get("clause")


def check_reach(agg: dict, tier: str):
    st = agg["stats"]
    need = ["generated_node_names", "generated_value_names", "namefix_checked", "namefix_modified", "rename_applied", "rename_rejected", "namefix_models_with_duplicate_value_names", "namefix_models_with_missing_value_names"]
    missing = [k for k in need if not st.get(k)]
    return missing if agg["runs"] > 300 else []
