"""Operation alphabet of Engine A: public ir-py calls only.

An op is ``[name, a, b, c, d]`` with small non-negative integers.  Operands pick
"the (x mod n)-th object of kind K", optionally filtered with a fallback to
unfiltered, so every op list is executable.  ``d`` usually carries mode bits:
bit 0 = "prefer arguments that make the call valid", other bits op-specific.
Rejections (the faults of this engine) arise from unfiltered picks and from
*planted* invalid elements at a chosen position of a multi-element argument.
"""

from __future__ import annotations

import numpy as np
import onnx_ir as ir
from onnx_ir import convenience as conv

from irsim.world import World

NAME_POOL = [None, None, "x", "y", "val_0", "val_1", "val_2", "val_3", "node_Add_0", "node_Relu_1", "node_Add_1", "a", "b", "w", ""]
OPTYPES = ["Add", "Relu", "Mul", "Identity", "If", "Concat"]
DTYPES = [ir.DataType.FLOAT, ir.DataType.INT64, ir.DataType.INT8, ir.DataType.BOOL]


def digits(x: int, n: int, base: int = 64) -> list[int]:
    out = []
    for _ in range(n):
        out.append(x % base)
        x //= base
    return out


def pick_where(lst, a: int, pred, fallback=True):
    cands = [x for x in lst if pred(x)]
    if not cands:
        if not fallback or not lst:
            return None
        cands = lst
    return cands[a % len(cands)]


def containers(w: World) -> list:
    return list(w.graphs) + list(w.functions)


def C(w: World, a: int):
    cs = containers(w)
    return cs[a % len(cs)] if cs else None


def cgraph(c):
    """The ir.Graph behind a Graph or Function."""
    return c.graph if isinstance(c, ir.Function) else c


def name_from(w: World, a: int):
    if a % 17 == 16:
        return w.fresh_name("u")
    if a % 19 == 18:
        # a name shaped like a generated one, a little AHEAD of where the graphs' counters can be by now
        ahead = (a // 19) % 3
        if (a // 57) % 2:
            top = max([int(v.name[4:]) for v in w.values if v.name and v.name.startswith("val_") and v.name[4:].isdigit()] or [-1])
            return f"val_{top + 1 + ahead}"
        op = OPTYPES[(a // 114) % len(OPTYPES)]
        pre = f"node_{op}_"
        top = max([int(n.name[len(pre):]) for n in w.nodes if n.name and n.name.startswith(pre) and n.name[len(pre):].isdigit()] or [-1])
        return f"{pre}{top + 1 + ahead}"
    return NAME_POOL[a % len(NAME_POOL)]


REJECTED_TENSOR_NAME = "bad\ud800name"  # a str the protobuf-backed tensor class cannot store


class PickyTensor(ir.Tensor):
    """A tensor whose name setter rejects some names (fault at the TensorProtocol seam)."""

    @property
    def name(self):
        return self.__dict__.get("_picky_name")

    @name.setter
    def name(self, value):
        if value is not None and value.startswith("node_"):
            raise ValueError(f"this tensor backend cannot be named {value!r}")
        self.__dict__["_picky_name"] = value


LAZY_EVALUATIONS = [0]  # how often the loader of a lazily loaded constant of the alphabet has run (process-wide counter)


def small_tensor(w: World, a: int, name=None):
    arr = np.arange((a % 3) + 1, dtype=np.float32) + (a % 5)
    kind = (a // 15) % 5
    if (a // 7) % 23 == 12:
        # an ordinary lazily loaded constant (small): nothing but an explicit read may run its loader
        def _load(arr=arr, name=name):
            LAZY_EVALUATIONS[0] += 1
            return ir.Tensor(arr, name=name)

        t = ir.LazyTensor(_load, dtype=ir.DataType.FLOAT, shape=ir.Shape([int(arr.shape[0])]), name=name, cache=bool((a // 161) % 2))
    elif (a // 7) % 23 == 11:
        # a lazily loaded constant declared with a symbolic dimension (the declared shape is not checked against the
        # data): size / nbytes of such a tensor cannot be computed, and repr() of a value holding it raises
        t = ir.LazyTensor(lambda arr=arr, name=name: ir.Tensor(arr, name=name), dtype=ir.DataType.FLOAT, shape=ir.Shape(["N"]), name=name)
    elif kind == 3:
        # protobuf-backed tensor, as in every deserialized model: its name setter validates
        import onnx

        t = ir.serde.TensorProtoTensor(onnx.numpy_helper.from_array(arr, name=name or ""))
    elif kind == 4 and not (name or "").startswith("node_"):
        t = PickyTensor(arr)
        t.name = name
    else:
        t = ir.Tensor(arr, name=name)
    w.reg(t)
    return t


# ------------------------------------------------------------ invalid elements
def bad_node(w: World, c, kind: int):
    """A node that makes a node-sequence call on container c raise (or None if none exists)."""
    g = cgraph(c) if c is not None else None
    if kind % 5 == 4:
        # not a node at all (rejected calls of the TypeError / AttributeError class)
        return ["oops", 3, w.value(kind // 5)][(kind // 5) % 3]
    if kind % 2 == 0:
        return pick_where(w.nodes, kind, lambda n: n.graph is not None and n.graph is not g, fallback=False)
    return pick_where(w.nodes, kind, lambda n: n.graph is None, fallback=False)  # e.g. as an anchor / removal of a foreign node


def bad_value_for_io(w: World, g, kind: int, outputs: bool):
    if kind % 7 == 6:
        return ["oops", 3, w.node(kind // 7)][(kind // 7) % 3]  # not a value at all
    k = kind % 3
    if k == 0:
        return pick_where(w.values, kind, lambda v: v.graph is not None and v.graph is not g and (v.is_graph_input() or v.is_graph_output() or v.is_initializer()), fallback=False)
    if k == 1 and not outputs:
        return pick_where(w.values, kind, lambda v: v.producer() is not None, fallback=False)
    return pick_where(w.values, kind, lambda v: v.graph is not None and v.graph is not g, fallback=False)


def valid_value_for_io(w: World, g, a: int, outputs: bool):
    if outputs:
        return pick_where(w.values, a, lambda v: v.graph is None or v.graph is g)
    return pick_where(w.values, a, lambda v: (v.graph is None or v.graph is g) and v.producer() is None)


def planted_nodes(w: World, c, a: int, d: int, valid_pred):
    """m nodes satisfying valid_pred, with an invalid one planted at position k when requested."""
    m = 1 + (d >> 1) % 4
    ds = digits(a, m)
    lst = [pick_where(w.nodes, x, valid_pred) for x in ds]
    lst = [n for n in lst if n is not None]
    if (d >> 3) % 3 == 0 and lst:
        k = (d >> 5) % len(lst)
        b = bad_node(w, c, d >> 7)
        if b is not None:
            lst[k] = b
    return lst


def planted_values(w: World, g, a: int, d: int, outputs: bool):
    m = 1 + (d >> 1) % 4
    ds = digits(a, m)
    lst = [valid_value_for_io(w, g, x, outputs) for x in ds]
    lst = [v for v in lst if v is not None]
    if (d >> 3) % 3 == 0 and lst:
        k = (d >> 5) % len(lst)
        b = bad_value_for_io(w, g, d >> 7, outputs)
        if b is not None:
            lst[k] = b
    return lst


def as_iterable(items, sel: int):
    """The same items in one of the forms an ``Iterable`` parameter admits (a one-shot iterator among them)."""
    sel %= 5
    if sel == 1:
        return tuple(items)
    if sel == 2:
        return iter(list(items))
    if sel == 3:
        return (x for x in list(items))
    return items


class TaggedValue(ir.Value):
    """A subclass as user code may write it: own state is set after ``super().__init__()`` and used by ``__repr__``."""

    def __init__(self, *args, tag=0, **kwargs) -> None:
        super().__init__(*args, **kwargs)
        self.tag = tag

    def __repr__(self) -> str:
        return f"TaggedValue(tag={self.tag}, name={self.name!r})"


class EarlySetterNode(ir.Node):
    """A subclass that assigns through a property setter BEFORE calling the base constructor (which then overrides it)."""

    def __init__(self, *args, **kwargs) -> None:
        self.name = "set_early"
        super().__init__(*args, **kwargs)


# ------------------------------------------------------------------ the ops
def op_new_value(w, a, b, c, d):
    kw = {}
    if b % 3 == 1:
        kw["type"] = ir.TensorType(DTYPES[b % len(DTYPES)])
    if b % 4 == 1:
        kw["shape"] = ir.Shape([2, "n"][: 1 + b % 2])
    name = name_from(w, a)
    if c % 3 == 0:
        kw["const_value"] = small_tensor(w, c, name)
    if (b >> 7) % 13 == 5:
        # a user subclass that finishes setting itself up after the base constructor returned (its repr needs that)
        v = TaggedValue(name=name, tag=b % 7, **kw)
    else:
        v = ir.Value(name=name, **kw)
    w.reg(v)
    return w.ref(v)


def op_new_node(w, a, b, c, d):
    k = b % 4
    ins = []
    for x in digits(a, k):
        ins.append(None if x % 9 == 8 else w.value(x))
    g = None
    if d % 3 == 0:
        g = C(w, d >> 2)
    nm = name_from(w, c >> 5)
    w.last_new = None
    # wrong-typed arguments (rejected calls of the TypeError class): something that is not a Value planted among the
    # inputs, or something that is not a Graph / Function given as the owner
    if (b >> 2) % 9 == 4 and ins:
        ins[(b >> 6) % len(ins)] = ["oops", 3, w.node(b >> 8)][(b >> 14) % 3]
    if (b >> 16) % 11 == 5:
        base = w.graph(b >> 20)
        g = [ir.GraphView(list(base.inputs), list(base.outputs), nodes=list(base)) if base is not None else "g", "not a graph"][(b >> 23) % 2]
    # (a user subclass that uses a property setter before the base constructor has run, in a few cases)
    cls = EarlySetterNode if (b >> 9) % 17 == 3 else ir.Node
    n = cls("" if c % 7 else "custom", OPTYPES[c % len(OPTYPES)], as_iterable(ins, c >> 9), num_outputs=1 + (c >> 3) % 3, name=nm, graph=g)
    w.last_new = (n, nm)
    w.reg(n)
    for o in n.outputs:
        w.reg(o)
    return w.ref(n)


# Node(outputs=[<graph input or initializer>]) is a recorded C01 finding (known_findings.json).  Every
# check other than C01 keeps its histories out of the states that only that defect can reach.
AVOID_NODE_OUTPUTS_ON_GRAPH_INPUTS = False


def op_new_node_with_outputs(w, a, b, c, d):
    m = 1 + b % 2
    if d & 1:
        outs = [pick_where(w.values, x, lambda v: v.producer() is None and not v.is_graph_input() and not v.is_initializer(), fallback=not AVOID_NODE_OUTPUTS_ON_GRAPH_INPUTS) for x in digits(a, m)]
    elif AVOID_NODE_OUTPUTS_ON_GRAPH_INPUTS:
        outs = [pick_where(w.values, x, lambda v: not v.is_graph_input() and not v.is_initializer(), fallback=False) for x in digits(a, m)]
    else:
        outs = [w.value(x) for x in digits(a, m)]
    outs = [o for o in outs if o is not None]
    ins = [w.value(c)] if c % 2 else []
    g = C(w, d >> 2) if (d >> 1) % 3 == 0 else None
    if (b >> 1) % 7 == 3:
        base = w.graph(b >> 5)
        g = [ir.GraphView(list(base.inputs), list(base.outputs), nodes=list(base)) if base is not None else "g", "not a graph"][(b >> 12) % 2]
    if (b >> 14) % 9 == 4 and ins:
        ins = ["oops"]
    n = ir.Node("", OPTYPES[c % len(OPTYPES)], as_iterable(ins, c >> 8), outputs=tuple(outs) if (c >> 11) % 3 == 1 else outs, graph=g, name=name_from(w, c >> 4))
    w.reg(n)
    return w.ref(n)


def op_new_node_subgraph(w, a, b, c, d):
    sub = pick_where(w.graphs, a, lambda g: True)
    if sub is None:
        return None
    attrs = [ir.AttrGraph("body", sub)] if b % 3 else [ir.AttrGraphs("branches", [sub, w.graph(b >> 2)])]
    ins = [w.value(c)] if c % 2 else []
    g = C(w, d >> 2) if d % 3 == 0 else None
    n = ir.Node("", "If", as_iterable(ins, c >> 9), as_iterable(attrs, c >> 12), num_outputs=1, graph=g, name=name_from(w, c >> 3))
    w.reg(n)
    return w.ref(n)


def op_new_graph(w, a, b, c, d):
    prefer_valid = bool(d & 1)
    if prefer_valid:
        ins = [pick_where(w.values, x, lambda v: v.graph is None and v.producer() is None) for x in digits(a, a % 3)]
        outs = [pick_where(w.values, x, lambda v: v.graph is None) for x in digits(b, b % 3)]
        nodes = [pick_where(w.nodes, x, lambda n: n.graph is None) for x in digits(c, c % 3)]
        inits = []
    else:
        ins = [w.value(x) for x in digits(a, a % 3)]
        outs = [w.value(x) for x in digits(b, b % 3)]
        nodes = [w.node(x) for x in digits(c, c % 3)]
        inits = [pick_where(w.values, x, lambda v: v.const_value is not None and bool(v.name)) for x in digits(d >> 1, (d >> 1) % 2)]
    ins = [x for x in ins if x is not None]
    outs = [x for x in outs if x is not None]
    nodes = [x for x in nodes if x is not None]
    inits = [x for x in inits if x is not None]
    form = d >> 9
    g = ir.Graph(tuple(ins) if form % 3 == 1 else ins, tuple(outs) if (form >> 2) % 3 == 1 else outs, nodes=as_iterable(nodes, form >> 4), initializers=tuple(inits) if form % 2 else inits, name=w.fresh_name("g"), opset_imports={"": 20})
    w.reg(g)
    return w.ref(g)


def op_new_function(w, a, b, c, d):
    g = pick_where(w.graphs, a, lambda g: not any(f.graph is g for f in w.functions))
    if g is None:
        return None
    f = ir.Function("fdom", w.fresh_name("fn"), "", graph=g, attributes=[])
    w.reg(f)
    return w.ref(f)


def op_new_model(w, a, b, c, d):
    g = pick_where(w.graphs, a, lambda g: not any(m.graph is g for m in w.models))
    if g is None:
        return None
    m = ir.Model(g, ir_version=10 + b % 3)
    w.reg(m)
    return w.ref(m)


# node sequence -----------------------------------------------------------
def _valid_for(c):
    g = cgraph(c)
    return lambda n: n.graph is None or n.graph is g


def op_append(w, a, b, c, d):
    cont = C(w, a)
    if cont is None:
        return None
    n = pick_where(w.nodes, b, _valid_for(cont)) if d & 1 else w.node(b)
    if n is None:
        return None
    w.last_passed = [n]
    cont.append(n)


def op_extend(w, a, b, c, d):
    cont = C(w, a)
    if cont is None:
        return None
    nodes = planted_nodes(w, cont, b, d, _valid_for(cont))
    w.last_passed = list(nodes)
    # any Iterable[Node] is accepted: sometimes pass a one-shot iterator / generator
    if (d >> 13) % 3 == 1:
        cont.extend(iter(nodes))
    elif (d >> 13) % 3 == 2:
        cont.extend(n for n in nodes)
    else:
        cont.extend(nodes)


def _anchor(w, cont, c, d):
    g = cgraph(cont)
    if (d >> 9) % 4 == 0:
        return w.node(c)  # arbitrary, possibly not in the container
    return pick_where(w.nodes, c, lambda n: n.graph is g)


def op_insert_before(w, a, b, c, d):
    cont = C(w, a)
    if cont is None:
        return None
    anchor = _anchor(w, cont, c, d)
    if anchor is None:
        return None
    nodes = planted_nodes(w, cont, b, d, _valid_for(cont))
    w.last_passed = list(nodes)
    arg = nodes[0] if len(nodes) == 1 and d & 1 else (iter(nodes) if (d >> 13) % 2 else nodes)
    cont.insert_before(anchor, arg)


def op_insert_after(w, a, b, c, d):
    cont = C(w, a)
    if cont is None:
        return None
    anchor = _anchor(w, cont, c, d)
    if anchor is None:
        return None
    nodes = planted_nodes(w, cont, b, d, _valid_for(cont))
    w.last_passed = list(nodes)
    arg = nodes[0] if len(nodes) == 1 and d & 1 else ((n for n in nodes) if (d >> 13) % 2 else nodes)
    cont.insert_after(anchor, arg)


def op_node_prepend(w, a, b, c, d):
    n = w.node(a)
    if n is None:
        return None
    g = n.graph
    nodes = planted_nodes(w, g, b, d, (lambda m: m.graph is None or m.graph is g))
    w.last_passed = list(nodes)
    n.prepend(nodes)


def op_node_append(w, a, b, c, d):
    n = w.node(a)
    if n is None:
        return None
    g = n.graph
    nodes = planted_nodes(w, g, b, d, (lambda m: m.graph is None or m.graph is g))
    w.last_passed = list(nodes)
    n.append(nodes)


def op_remove(w, a, b, c, d):
    cont = C(w, a)
    if cont is None:
        return None
    g = cgraph(cont)
    safe = bool((d >> 10) & 1)
    m = 1 + (d >> 1) % 3
    if d & 1:
        nodes = [pick_where(w.nodes, x, lambda n: n.graph is g) for x in digits(b, m)]
    else:
        nodes = [w.node(x) for x in digits(b, m)]
    nodes = [n for n in nodes if n is not None]
    if (d >> 3) % 3 == 0 and nodes:
        k = (d >> 5) % len(nodes)
        bn = bad_node(w, cont, d >> 7)
        if bn is not None:
            nodes[k] = bn
    if not nodes:
        return None
    arg = nodes[0] if len(nodes) == 1 and (d >> 11) & 1 else (iter(nodes) if (d >> 13) % 2 else nodes)
    cont.remove(arg, safe=safe)


def op_sort(w, a, b, c, d):
    cont = C(w, a)
    if cont is None:
        return None
    w.last_passed = list(cgraph(cont).all_nodes())  # sort() hands every node to its graph again
    cont.sort()


# connections -------------------------------------------------------------
def op_replace_input(w, a, b, c, d):
    n = w.node(a)
    if n is None:
        return None
    k = len(n.inputs)
    idx = (b % k) if (k and d & 1) else (b % (k + 2)) - 1
    v = None if c % 7 == 6 else w.value(c)
    if (d >> 4) % 11 == 6:
        v = ["junk", 7, n][(d >> 9) % 3]  # not a Value
    n.replace_input_with(idx, v)


def op_resize_inputs(w, a, b, c, d):
    n = w.node(a)
    if n is None:
        return None
    # (sometimes a negative size: an invalid request)
    n.resize_inputs(-1 - (b >> 5) % 3 if (b >> 3) % 11 == 7 else b % 5)


def op_resize_outputs(w, a, b, c, d):
    n = w.node(a)
    if n is None:
        return None
    n.resize_outputs(b % 4)


def op_rauw(w, a, b, c, d):
    v, r = w.value(a), w.value(b)
    if v is None or r is None:
        return None
    v.replace_all_uses_with(r, replace_graph_outputs=bool(d & 1))


def op_conv_rauw(w, a, b, c, d):
    m = 1 + c % 3
    vs = [w.value(x) for x in digits(a, m)]
    rs = [w.value(x) for x in digits(b, m if (d >> 2) % 5 else m + 1)]
    vs = [v for v in vs if v is not None]
    rs = [v for v in rs if v is not None]
    if not vs:
        return None
    if (d >> 6) % 7 == 3 and rs:
        conv.replace_all_uses_with(vs[0], rs[0], replace_graph_outputs=bool(d & 1))  # scalar form
        return None
    conv.replace_all_uses_with(vs, rs, replace_graph_outputs=bool(d & 1))


def op_replace_nodes_and_values(w, a, b, c, d):
    cont = C(w, a)
    if cont is None:
        return None
    g = cgraph(cont)
    ip = pick_where(w.nodes, b, lambda n: n.graph is g)
    old = pick_where(w.nodes, c, lambda n: n.graph is g)
    new = pick_where(w.nodes, d >> 1, lambda n: n.graph is None)
    if ip is None or old is None or new is None:
        return None
    k = min(len(old.outputs), len(new.outputs))
    conv.replace_nodes_and_values(cont, ip, [old], [new], list(old.outputs)[:k], list(new.outputs)[:k])


# graph inputs / outputs -----------------------------------------------------
def _io(w, a, d):
    cont = C(w, a)
    if cont is None:
        return None, None, False
    outputs = bool((d >> 12) & 1)
    return cont, (cont.outputs if outputs else cont.inputs), outputs


def op_io_append(w, a, b, c, d):
    cont, io, outs = _io(w, a, d)
    if cont is None:
        return None
    v = valid_value_for_io(w, cgraph(cont), b, outs) if d & 1 else w.value(b)
    if v is None:
        return None
    io.append(v)


def op_io_extend(w, a, b, c, d):
    cont, io, outs = _io(w, a, d)
    if cont is None:
        return None
    vals = planted_values(w, cgraph(cont), b, d, outs)
    if (d >> 13) % 2:
        io.extend(v for v in vals)
    else:
        io.extend(vals)


def op_io_insert(w, a, b, c, d):
    cont, io, outs = _io(w, a, d)
    if cont is None:
        return None
    v = valid_value_for_io(w, cgraph(cont), b, outs) if d & 1 else w.value(b)
    if v is None:
        return None
    io.insert((c % (len(io) + 3)) - 1, v)


def op_io_pop(w, a, b, c, d):
    cont, io, outs = _io(w, a, d)
    if cont is None:
        return None
    if d & 1:
        r = io.pop()
    else:
        r = io.pop((b % (len(io) + 2)) - 1)
    return w.ref(r)


def op_io_remove(w, a, b, c, d):
    cont, io, outs = _io(w, a, d)
    if cont is None:
        return None
    v = (io[b % len(io)] if len(io) and d & 1 else w.value(b))
    if v is None:
        return None
    io.remove(v)


def op_io_clear(w, a, b, c, d):
    cont, io, outs = _io(w, a, d)
    if cont is None:
        return None
    io.clear()


def op_io_setitem(w, a, b, c, d):
    cont, io, outs = _io(w, a, d)
    if cont is None:
        return None
    v = valid_value_for_io(w, cgraph(cont), b, outs) if d & 1 else w.value(b)
    if v is None:
        return None
    idx = (c % len(io)) if (len(io) and (d >> 1) & 1) else (c % (len(io) + 2)) - 1
    io[idx] = v


def op_io_setslice(w, a, b, c, d):
    cont, io, outs = _io(w, a, d)
    if cont is None:
        return None
    vals = planted_values(w, cgraph(cont), b, d, outs)
    lo = c % (len(io) + 1)
    hi = lo + (c >> 3) % 3
    if (c >> 5) % 4 == 0:
        # extended slice: the replacement must have exactly as many items as the slice selects
        io[lo :: 2 + (c >> 7) % 2] = vals
    else:
        io[lo:hi] = vals


def op_io_delitem(w, a, b, c, d):
    cont, io, outs = _io(w, a, d)
    if cont is None:
        return None
    if (d >> 1) & 1:
        lo = b % (len(io) + 1)
        del io[lo : lo + 1 + c % 2]
    else:
        idx = (b % len(io)) if (len(io) and d & 1) else (b % (len(io) + 2)) - 1
        del io[idx]


def op_io_reverse(w, a, b, c, d):
    cont, io, outs = _io(w, a, d)
    if cont is None:
        return None
    io.reverse()


def op_io_iadd(w, a, b, c, d):
    cont, io, outs = _io(w, a, d)
    if cont is None:
        return None
    v = w.value(b)
    io += [v] if v is not None else []


def op_io_listapi(w, a, b, c, d):
    """The rest of the list API a graph input/output collection inherits (in-place operators, sort, index types)."""
    cont, io, outs = _io(w, a, d)
    if cont is None:
        return None
    k = b % 8
    v = w.value(c)
    if k == 0:
        io *= (c % 3)  # 0 clears, 1 keeps, 2 duplicates
    elif k == 1:
        return len(io * 2)
    elif k == 2:
        if v is None:
            return None
        io.insert("0", v)  # an index of the wrong type
    elif k == 3:
        if v is None:
            return None
        io.insert(None, v)
    elif k == 4:
        io.sort(key=lambda x: x.name or "")
    elif k == 5:
        import copy as _copy

        cp = io.copy() if c % 2 else _copy.copy(io)  # a detached copy: editing it never touches the graph
        if v is not None:
            cp.append(v)
        if cp:
            cp.pop(0)
        return len(cp)
    elif k == 6:
        if v is None:
            return None
        io[c % (len(io) + 1) : c % (len(io) + 1)] = iter([v])
    else:
        return (len(io), io.count(v), v in io)


# initializers --------------------------------------------------------------
def op_init_dictapi(w, a, b, c, d):
    """The rest of the dict API the initializers mapping inherits (|=, |, copy, popitem, fromkeys-like use)."""
    g = w.graph(a)
    if g is None:
        return None
    inits = g.initializers
    v = _init_value(w, g, c, d)
    k = b % 6
    if k == 0:
        if v is None:
            return None
        inits |= {(v.name or name_from(w, c) or "k"): v}
    elif k == 1:
        if v is None:
            return None
        merged = inits | {(v.name or "k"): v}  # a new mapping: the graph's own initializers are not changed
        return len(merged)
    elif k == 2:
        import copy as _copy

        cp = inits.copy() if c % 2 else _copy.copy(inits)  # a detached copy
        for key in list(cp)[: 1 + c % 2]:
            del cp[key]
        if v is not None and v.name:
            cp[v.name] = v
        return len(cp)
    elif k == 3:
        if not len(inits):
            return None
        inits.popitem()
    elif k == 4:
        # the same value under two different keys; preferably one without a name (None or "") that the mapping would accept
        u = pick_where(w.values, c, lambda x: not x.name and x.producer() is None and (x.graph is None or x.graph is g), fallback=False)
        if u is not None and (c >> 9) % 3:
            v = u
        if v is None:
            return None
        first = pick_where(w.values, c >> 4, lambda x: bool(x.name) and x.producer() is None and (x.graph is None or x.graph is g) and x is not v, fallback=False)
        items = {}
        if first is not None and (c >> 7) % 2:
            items[first.name] = first  # an acceptable item ahead of the rejected one
        items[(v.name or "p")] = v
        items["q_" + (v.name or "p")] = v
        inits.update(items)
    else:
        return (len(inits), sorted(map(str, inits.keys())), [x.name for x in inits.values()])


def _init_value(w, g, b, d):
    if d & 1:
        return pick_where(w.values, b, lambda v: (v.graph is None or v.graph is g) and v.producer() is None and bool(v.name))
    return w.value(b)


def op_init_setitem(w, a, b, c, d):
    g = w.graph(a)
    v = _init_value(w, g, b, d) if g is not None else None
    if v is None:
        return None
    mode = (d >> 1) % 4
    if mode == 0:
        key = name_from(w, c) or "k"
    else:
        key = v.name if v.name else (name_from(w, c) or "k")
    g.initializers[key] = v


def op_init_add(w, a, b, c, d):
    g = w.graph(a)
    v = _init_value(w, g, b, d) if g is not None else None
    if v is None:
        return None
    g.initializers.add(v)


def op_init_register(w, a, b, c, d):
    g = w.graph(a)
    v = _init_value(w, g, b, d) if g is not None else None
    if v is None:
        return None
    g.register_initializer(v)


def op_init_delitem(w, a, b, c, d):
    g = w.graph(a)
    if g is None:
        return None
    keys = list(g.initializers)
    key = keys[b % len(keys)] if keys and d & 1 else (name_from(w, b) or "zz")
    del g.initializers[key]


def op_init_pop(w, a, b, c, d):
    g = w.graph(a)
    if g is None:
        return None
    keys = list(g.initializers)
    mode = (d >> 1) % 3
    if mode == 0:
        r = g.initializers.popitem()
        return (r[0], w.ref(r[1]))
    key = keys[b % len(keys)] if keys and d & 1 else (name_from(w, b) or "zz")
    r = g.initializers.pop(key) if mode == 1 else g.initializers.pop(key, None)
    return w.ref(r)


def op_init_clear(w, a, b, c, d):
    g = w.graph(a)
    if g is None:
        return None
    g.initializers.clear()


def op_init_update(w, a, b, c, d):
    g = w.graph(a)
    if g is None:
        return None
    m = 1 + (d >> 1) % 3
    vals = [pick_where(w.values, x, lambda v: (v.graph is None or v.graph is g) and v.producer() is None and bool(v.name)) for x in digits(b, m)]
    vals = [v for v in vals if v is not None]
    if (d >> 3) % 3 == 0 and vals:
        k = (d >> 5) % len(vals)
        kind = (d >> 7) % 3
        bad = None
        if kind == 0:
            bad = pick_where(w.values, d >> 9, lambda v: v.producer() is not None and bool(v.name), fallback=False)
        elif kind == 1:
            bad = pick_where(w.values, d >> 9, lambda v: v.graph is not None and v.graph is not g and bool(v.name), fallback=False)
        if bad is not None:
            vals[k] = bad
        elif kind == 2:
            # key that does not match the name
            mapping = {(v.name if i != k else v.name + "_x"): v for i, v in enumerate(vals)}
            g.initializers.update(mapping)
            return None
    g.initializers.update({v.name: v for v in vals})


def op_init_setdefault(w, a, b, c, d):
    g = w.graph(a)
    v = _init_value(w, g, b, d) if g is not None else None
    if v is None:
        return None
    r = g.initializers.setdefault(v.name if v.name else "k", v)
    return w.ref(r)


# object attributes -----------------------------------------------------------
def op_value_name(w, a, b, c, d):
    v = w.value(a)
    if v is None:
        return None
    if (d >> 3) % 13 == 5:
        v.name = [123, 4.5, ("t",), b"bytes"][(d >> 8) % 4]  # not a string (rejected call of the TypeError class)
    elif (d >> 1) % 4 == 3 and isinstance(v.const_value, ir.serde.TensorProtoTensor):
        v.name = REJECTED_TENSOR_NAME
    elif d & 1:
        g = v.graph
        keys = list(g.initializers) if (g is not None and v.is_initializer()) else []
        v.name = keys[b % len(keys)] if keys else name_from(w, b)
    else:
        v.name = name_from(w, b)


def op_value_attrs(w, a, b, c, d):
    v = w.value(a)
    if v is None:
        return None
    k = b % 10
    if k == 8:
        # in-place edit of the shape object (allowed on frozen shapes too)
        if v.shape is None or not len(v.shape):
            return None
        v.shape.set_denotation(c % len(v.shape), ["DATA_BATCH", "DATA_CHANNEL", None][(c // 7) % 3])
    elif k == 9:
        # in-place edit of the type object
        if v.type is None or not hasattr(v.type, "denotation"):
            return None
        v.type.denotation = ["TENSOR", "IMAGE", None][(c // 7) % 3]
    elif k == 0:
        v.type = ir.TensorType(DTYPES[c % len(DTYPES)]) if c % 3 else None
    elif k == 1:
        v.dtype = DTYPES[c % len(DTYPES)]
    elif k == 2:
        v.shape = ir.Shape([c % 4, "m"]) if c % 3 else None
    elif k == 3:
        if c % 4 == 1 and w.tensors:
            # tied weights: a tensor object that is (possibly) already the constant of another value
            v.const_value = w.tensors[(c // 4) % len(w.tensors)]
        else:
            v.const_value = small_tensor(w, c, v.name) if c % 3 else None
    elif k == 4:
        v.doc_string = f"doc{c % 3}"
    elif k == 5:
        v.metadata_props[f"k{c % 2}"] = f"v{c % 3}"
    elif k == 6:
        v.meta[f"m{c % 2}"] = c % 3
    else:
        if v.shape is not None and len(v.shape) and not v.shape.frozen:
            v.shape[0] = c % 5
        else:
            v.merge_shapes(ir.Shape([c % 4, "m"]))


def op_node_attrs(w, a, b, c, d):
    n = w.node(a)
    if n is None:
        return None
    k = b % 8
    if (b >> 3) % 9 == 4:
        # several attributes at once through the mapping interface, optionally with an item that is not an attribute
        # (or a key that is not a string) planted at position k
        items = [(f"multi{i}", ir.AttrInt64(f"multi{i}", (c + i) % 5)) for i in range(1 + (b >> 7) % 3)]
        how = (b >> 10) % 4
        pos = (b >> 12) % len(items)
        if how == 1:
            items[pos] = (items[pos][0], "not an attribute")
        elif how == 2:
            items[pos] = (7, items[pos][1])
        if (b >> 15) % 2:
            n.attributes.update(dict(items) if how != 2 else items)
        else:
            n.attributes.update(items)
        return None
    if k == 0:
        n.name = name_from(w, c)
    elif k == 1:
        n.domain = ["", "ai.onnx", "custom"][c % 3]
    elif k == 2:
        n.op_type = OPTYPES[c % len(OPTYPES)]
    elif k == 3:
        n.overload = ["", "o1"][c % 2]
    elif k == 4:
        n.version = [None, 18, 20][c % 3]
    elif k == 5:
        n.doc_string = f"nd{c % 3}"
    elif k == 6:
        n.attributes[f"attr{c % 2}"] = ir.AttrInt64(f"attr{c % 2}", c % 5)
    else:
        keys = list(n.attributes)
        if keys:
            del n.attributes[keys[c % len(keys)]]
        else:
            n.metadata_props["mk"] = f"{c % 3}"


def op_attr_graph(w, a, b, c, d):
    """Attach / replace / delete a graph-valued attribute (changes which subgraphs a node owns)."""
    n = w.node(a)
    if n is None:
        return None
    k = d % 3
    if k == 0:
        g = pick_where(w.graphs, b, lambda g: True)
        if g is None:
            return None
        n.attributes["body"] = ir.AttrGraph("body", g)
    elif k == 1:
        keys = [k_ for k_, a_ in n.attributes.items() if a_.type in (ir.AttributeType.GRAPH, ir.AttributeType.GRAPHS)]
        if not keys:
            return None
        del n.attributes[keys[b % len(keys)]]
    else:
        n.attributes.add(ir.AttrInt64s("axes", [b % 3, c % 3]))


def op_merge_shapes(w, a, b, c, d):
    """Value.merge_shapes with compatible and conflicting shapes (a conflict may sit at any dimension)."""
    v = w.value(a)
    if v is None:
        return None
    # (this op never assigns the shape itself: a rejected merge must be the only thing that happened)
    rank = len(v.shape) if v.shape is not None else 1 + d % 3
    dims = []
    for i in range(rank + (1 if b % 11 == 0 else 0)):
        x = (b >> (2 * i)) % 4
        dims.append([None, 3, 5, "m"][x])
    v.merge_shapes(ir.Shape(dims))


def op_meta_mutate(w, a, b, c, d):
    """In-place mutation of a mutable object stored in .meta (only meaningful against a deep copy)."""
    pool = [x for x in list(w.values) + list(w.nodes) + list(w.graphs) if isinstance(x.meta.get("trace"), list)]
    if not pool:
        return None
    x = pool[a % len(pool)]
    if b % 5 == 3:
        x.meta.invalidate(["trace", "cfg", "analysis"][c % 3])  # mark an analysis result as stale
    elif b % 5 == 4:
        x.meta["analysis"] = c % 7  # (re)compute an entry: it becomes valid again
    elif b % 3 == 0 and isinstance(x.meta.get("cfg"), dict):
        x.meta["cfg"]["k"].append(c % 5)
    else:
        x.meta["trace"].append(c % 5)


def op_rename_values(w, a, b, c, d):
    m = 1 + c % 3
    vs = [w.value(x) for x in digits(a, m)]
    vs = [v for v in vs if v is not None]
    if not vs:
        return None
    mode = d % 8
    if mode == 6:
        # scalar form
        conv.rename_values(vs[0], name_from(w, b) or w.fresh_name("rn"))
        return None
    if mode == 7:
        # one value listed twice (same / conflicting targets), or a wrong-typed element planted at position k
        names = [w.fresh_name("rn") for _ in vs]
        k = (d // 8) % len(vs)
        how = (d // 64) % 4
        if how == 0:
            vs = vs + [vs[k]]
            names = names + [names[k]]
        elif how == 1:
            vs = vs + [vs[k]]
            names = names + [w.fresh_name("other")]
        elif how == 2:
            vs[k] = "not a value"
        else:
            names[k] = None
        conv.rename_values(vs, names)
        return None
    if mode == 5:
        # directed: values backed by tensors (two of them by ONE tensor object when there is such a pair), each given a
        # different fresh name, and last a value whose tensor rejects the name it is asked to take
        with_t = [v for v in w.values if v.const_value is not None]
        by_t: dict = {}
        for v in with_t:
            by_t.setdefault(id(v.const_value), []).append(v)
        pairs = [g for g in by_t.values() if len(g) >= 2]
        first = list(pairs[a % len(pairs)][:2]) if pairs else with_t[a % len(with_t) :][:2] if with_t else []
        picky = [v for v in with_t if isinstance(v.const_value, (PickyTensor, ir.serde.TensorProtoTensor)) and all(v is not x for x in first)]
        vs = first + ([picky[b % len(picky)]] if picky and (d // 6) % 4 else [])
        if not vs:
            return None
        names = [w.fresh_name("rn") for _ in vs]
        last = vs[-1].const_value
        if len(vs) > len(first):
            names[-1] = "node_rejected" if isinstance(last, PickyTensor) else REJECTED_TENSOR_NAME
    elif mode == 0 and len(vs) >= 2:
        names = [v.name or "r" for v in vs]
        names = names[1:] + names[:1]  # rotation (swap / cycle)
    elif mode == 1:
        names = [name_from(w, x) or "" for x in digits(b, len(vs))]
    elif mode == 2:
        g = vs[0].graph
        keys = list(g.initializers) if g is not None else []
        names = [(keys[x % len(keys)] if keys else "q") for x in digits(b, len(vs))]
    elif mode == 3:
        names = [w.fresh_name("rn") for _ in vs][: max(1, len(vs) - 1)]  # length mismatch sometimes
        if len(names) != len(vs) and b % 2:
            names = names + ["tail"]
    else:
        names = [w.fresh_name("rn") for _ in vs]
    conv.rename_values(vs, names)


OPS = {
    "new_value": op_new_value,
    "new_node": op_new_node,
    "new_node_with_outputs": op_new_node_with_outputs,
    "new_node_subgraph": op_new_node_subgraph,
    "new_graph": op_new_graph,
    "new_function": op_new_function,
    "new_model": op_new_model,
    "append": op_append,
    "extend": op_extend,
    "insert_before": op_insert_before,
    "insert_after": op_insert_after,
    "node_prepend": op_node_prepend,
    "node_append": op_node_append,
    "remove": op_remove,
    "sort": op_sort,
    "replace_input": op_replace_input,
    "resize_inputs": op_resize_inputs,
    "resize_outputs": op_resize_outputs,
    "rauw": op_rauw,
    "conv_rauw": op_conv_rauw,
    "replace_nodes_and_values": op_replace_nodes_and_values,
    "io_append": op_io_append,
    "io_extend": op_io_extend,
    "io_insert": op_io_insert,
    "io_pop": op_io_pop,
    "io_remove": op_io_remove,
    "io_clear": op_io_clear,
    "io_setitem": op_io_setitem,
    "io_setslice": op_io_setslice,
    "io_delitem": op_io_delitem,
    "io_reverse": op_io_reverse,
    "io_iadd": op_io_iadd,
    "init_setitem": op_init_setitem,
    "init_add": op_init_add,
    "init_register": op_init_register,
    "init_delitem": op_init_delitem,
    "init_pop": op_init_pop,
    "init_clear": op_init_clear,
    "init_update": op_init_update,
    "init_setdefault": op_init_setdefault,
    "value_name": op_value_name,
    "value_attrs": op_value_attrs,
    "node_attrs": op_node_attrs,
    "rename_values": op_rename_values,
    "attr_graph": op_attr_graph,
    "meta_mutate": op_meta_mutate,
    "io_listapi": op_io_listapi,
    "init_dictapi": op_init_dictapi,
    "merge_shapes": op_merge_shapes,
}
CONSTRUCTORS = {"new_value", "new_node", "new_node_with_outputs", "new_node_subgraph", "new_graph", "new_function", "new_model"}
# weights for random histories (edits dominate; construction keeps the registry growing slowly)
WEIGHTS = {
    "new_value": 8, "new_node": 10, "new_node_with_outputs": 2, "new_node_subgraph": 2, "new_graph": 2, "new_function": 1, "new_model": 1,
    "append": 6, "extend": 6, "insert_before": 5, "insert_after": 5, "node_prepend": 2, "node_append": 2, "remove": 7, "sort": 2,
    "replace_input": 7, "resize_inputs": 3, "resize_outputs": 3, "rauw": 4, "conv_rauw": 3, "replace_nodes_and_values": 2,
    "io_append": 4, "io_extend": 4, "io_insert": 4, "io_pop": 3, "io_remove": 3, "io_clear": 1, "io_setitem": 4, "io_setslice": 4, "io_delitem": 4, "io_reverse": 1, "io_iadd": 1,
    "init_setitem": 4, "init_add": 3, "init_register": 2, "init_delitem": 3, "init_pop": 2, "init_clear": 1, "init_update": 3, "init_setdefault": 2,
    "value_name": 5, "value_attrs": 4, "node_attrs": 3, "rename_values": 6, "attr_graph": 2,
    "io_listapi": 4, "init_dictapi": 4, "merge_shapes": 2,
}  # fmt: skip


def bootstrap_ops() -> list:
    """A small deterministic prefix that creates two graphs with a few nodes and values."""
    ops = []
    for i in range(6):
        ops.append(["new_value", 2 + i, i, i + 1, 0])
    for i in range(5):
        ops.append(["new_node", i * 65 + i + 1, 2, i, 1])
    ops.append(["new_graph", 0 + 64 * 1, 6 + 64 * 7, 0 + 64 * 1, 1])
    ops.append(["new_graph", 2 + 64 * 3, 8 + 64 * 9, 2 + 64 * 3, 1])
    ops.append(["new_node_subgraph", 1, 1, 1, 0])
    ops.append(["new_model", 0, 0, 0, 0])
    ops.append(["new_function", 1, 0, 0, 0])
    return ops


def gen_ops(rng, n: int, names=None, weights=None) -> list:
    names = names or list(WEIGHTS)
    wts = [(weights or WEIGHTS).get(k, 1) for k in names]
    out = []
    for _ in range(n):
        name = rng.choices(names, wts)[0]
        out.append([name, rng.randrange(1 << 24), rng.randrange(1 << 24), rng.randrange(1 << 24), rng.randrange(1 << 16)])
    return out


def apply_op(w: World, op) -> tuple:
    """Execute one op.  Returns ('ok', result) or ('raise', exception type name, exception)."""
    fn = OPS[op[0]]
    try:
        r = fn(w, op[1], op[2], op[3], op[4])
    except Exception as e:  # noqa: BLE001 - rejected calls are the faults of this engine
        return ("raise", type(e).__name__, e)
    return ("ok", r)
