"""C03 — IR -> proto -> IR preserves the model; serialization has no side effects (scoped claim).

Claimed through its `histories` quantifier: `to_proto` is an observer operation
inserted at arbitrary points of edit histories.  Part A runs it inside Engine A
histories (mostly unserializable states: only "no side effect" and "twice
equal" apply); part B applies seeded public-API edits to generated well-formed
models and checks the full round trip structurally.  See DESIGN.md section 6 (C03).
"""

from __future__ import annotations

import copy
import logging
import os
import random

import numpy as np
import onnx
import onnx_ir as ir

from iosim.tensors import LAYOUTS, relayout
from irsim import iso, modelgen, ops, snapshot
from irsim.world import World
from simcore.prng import Streams, digest

logging.getLogger("onnx_ir").setLevel(logging.ERROR)

PROPERTY = "C03"
LEVEL = "exploration"
ops.AVOID_NODE_OUTPUTS_ON_GRAPH_INPUTS = True
TIERS = {
    "quick": {"max_runs": 5000, "optimize_runs": 1000, "wall": 420, "optimize_wall": 180, "chunk": 40, "shrink_budget": 300, "shrink_wall": 60},
    "thorough": {"wall": 600, "optimize_wall": 90, "chunk": 100, "shrink_budget": 600, "shrink_wall": 240},
}
RULE = (
    "each run = (A) one Engine A history of 15-50 ops with to_proto(model) inserted as an observer at 2-5 arbitrary points, and (B) one "
    "generated well-formed model (nested scopes, functions, metadata, optional device annotations) after 0-12 seeded public-API edits "
    "(unsorted order, dropped types/shapes, empty-named optional outputs, None inputs, renames, added/removed nodes, doc strings, metadata, "
    "attribute edits, initializer tensors re-implemented as array/proto-backed/lazy/packed/external) serialized twice, deserialized and "
    "compared structurally with the original; distinct = digest of (model spec, edits); non-trivial = the model serialized and the round trip was compared"
)
ASSUMPTIONS = [
    "scoped claim: only the `histories` half of the quantifier; breadth over tensor implementations and IR versions is what the two generators produce",
    "structural comparison through public accessors with identities turned into traversal numbers; normalisations applied: None == '' for names and doc strings, trailing unnamed node outputs trimmed, tensor class ignored (dtype/shape/bytes/name compared), Node.version and meta are IR-only and not compared",
    "const_value of values that are not initializers is ignored by serialization (documented) and not compared",
]
REAL_STUB = {"real": ["onnx_ir.serde (to_proto / from_proto)", "onnx_ir core"], "stub": [], "harness_extension_points": ["LazyTensor thunks"]}

EDITS = ["opset_spelling", "drop_type", "drop_shape", "empty_optional_output", "none_input", "rename_value", "rename_node", "add_node", "remove_unused", "doc", "metadata", "attr_set", "attr_del", "retensor", "symbolic_shape", "symbolic_shape", "denotation", "denotation", "seq_type", "shadow_name", "shadow_name", "share_tensor", "share_tensor", "tensor_meta", "tensor_meta", "share_tensor_attr", "lazy_transient", "io_roles", "io_roles"]


def gen_case(run_seed: int, tier: str, index: int = 0) -> dict:
    r = Streams(run_seed).rng("workload")
    params = dict(
        p_graphs=Streams(run_seed).rng("graphs-attr").choice([0.0, 0.0, 0.12, 0.25]), ref_graph_attrs=Streams(run_seed).rng("ref-graph-attrs").choice([0.0, 0.0, 0.6]), more_ops=Streams(run_seed).rng("more-ops").random() < 0.5, n_nodes=r.choice([1, 3, 5, 8, 12]), n_inputs=r.choice([0, 1, 2]), n_inits=r.choice([0, 1, 2, 3]), n_outputs=r.choice([1, 2]),
        n_functions=r.choice([0, 1, 2]), depth=r.choice([0, 1, 2]), typed=r.random() < 0.6, unsorted=r.random() < 0.3, p_if=r.choice([0.15, 0.35]),
        metadata=r.random() < 0.5, init_as_input=r.choice([0.0, 0.4]), ir_version=r.choice([8, 9, 10, 10, 11, 12]), p_multi=0.2, name_style=r.choice([0, 0, 1]),
    )  # fmt: skip
    edits = [[r.choice(EDITS), r.randrange(1 << 20), r.randrange(1 << 20)] for _ in range(r.choice([0, 2, 5, 8, 12]))]
    hist = ops.bootstrap_ops() + ops.gen_ops(r, r.choice([15, 30, 50]))
    probes = sorted(r.sample(range(len(hist) + 1), r.choice([2, 3, 5])))
    return {"property": PROPERTY, "run_seed": run_seed, "model_seed": r.randrange(1 << 30), "params": params, "edits": edits, "devices": r.random() < 0.3, "ops": hist, "probes": probes, "reload_at": (r.randrange(len(edits)) if edits and r.random() < 0.4 else None)}


def _all_nodes(model):
    out = list(model.graph.all_nodes())
    for f in model.functions.values():
        out.extend(f.all_nodes())
    return out


def apply_edit(model, edit, fresh) -> str:
    kind, a, b = edit
    nodes = _all_nodes(model)
    if not nodes:
        return "noop"
    n = nodes[a % len(nodes)]
    outs = [o for x in nodes for o in x.outputs]
    v = outs[b % len(outs)] if outs else None
    if kind == "drop_type" and v is not None:
        v.type = None
    elif kind == "drop_shape" and v is not None:
        v.shape = None
    elif kind == "empty_optional_output":
        cands = [x for x in nodes if len(x.outputs) > 1 and not x.outputs[-1].uses() and not x.outputs[-1].is_graph_output()]
        if not cands:
            return "noop"
        cands[a % len(cands)].outputs[-1].name = ""
    elif kind == "none_input":
        if not n.inputs:
            return "noop"
        n.replace_input_with(b % len(n.inputs), None)
    elif kind == "rename_value" and v is not None:
        # any value may be renamed: node outputs, graph inputs and initializers (the latter are re-keyed in their mapping)
        pool, seen_ = [], set()
        graphs_ = [g_ for top in [model.graph] + [f.graph for f in model.functions.values()] for g_ in [top] + list(top.subgraphs())]
        for x in outs + [y for g_ in graphs_ for y in list(g_.inputs) + list(g_.initializers.values())]:
            if id(x) not in seen_:
                seen_.add(id(x))
                pool.append(x)
        pool[b % len(pool)].name = fresh("rv")
    elif kind == "rename_node":
        n.name = fresh("rn")
    elif kind == "opset_spelling":
        # the default operator set imported under its long spelling ("ai.onnx"), instead of or next to ""
        owners = [model.graph] + [f.graph for f in model.functions.values()] + ([model] if hasattr(model, "opset_imports") else [])
        tgt = owners[a % len(owners)]
        imports = tgt.opset_imports
        ver = imports.get("", 20)
        if b % 3 == 0:
            imports["ai.onnx"] = ver - 1  # both spellings
        else:
            imports.pop("", None)
            imports["ai.onnx"] = ver
    elif kind == "add_node":
        g = model.graph
        src = list(g.inputs) + [o for x in g for o in x.outputs if o.name]
        if not src:
            return "noop"
        nn = ir.Node("" if b % 3 else "custom.domain", "Relu", [src[b % len(src)]], [ir.AttrString("s", "x"), ir.AttrInt64s("ints", [1, 2]), ir.AttrFloat32("f", 0.5)][: b % 4], name=fresh("an"), doc_string="added" if b % 2 else None)
        g.append(nn)
        nn.outputs[0].name = fresh("av")
        if "custom.domain" == nn.domain:
            g.opset_imports.setdefault("custom.domain", 1)
    elif kind == "remove_unused":
        cands = [x for x in model.graph if not any(o.uses() or o.is_graph_output() for o in x.outputs)]
        if not cands:
            return "noop"
        model.graph.remove(cands[a % len(cands)], safe=True)
    elif kind == "doc":
        n.doc_string = f"doc{b % 3}"
        if v is not None:
            v.doc_string = f"vdoc{b % 3}"
        model.graph.doc_string = "gdoc"
    elif kind == "metadata":
        n.metadata_props[f"k{b % 2}"] = f"v{b % 3}"
        if v is not None:
            v.metadata_props["vk"] = "vv"
        model.metadata_props["mk"] = f"{b % 3}"
        n.meta["ir_only"] = b
    elif kind == "attr_set":
        which = b % 13
        if which == 5:
            n.attributes["extra_str"] = ir.AttrString("extra_str", ["", "text", "üñí"][(b >> 4) % 3])
        elif which == 6:
            n.attributes["extra_fl"] = ir.AttrFloat32("extra_fl", [0.0, -1.5, 3.25][(b >> 4) % 3])
        elif which == 7:
            n.attributes["extra_is"] = ir.AttrInt64s("extra_is", [[], [1], [-(2**40), 0, 7]][(b >> 4) % 3])
        elif which == 8:
            n.attributes["extra_ts"] = ir.AttrTensors("extra_ts", [ir.Tensor(np.arange(k + 1, dtype=np.float32), name=fresh("ats")) for k in range((b >> 4) % 3)])
        elif which == 9:
            n.attributes["extra_tp"] = ir.AttrTypeProto("extra_tp", ir.TypeAndShape(ir.TensorType(ir.DataType.INT8), ir.Shape([1, "n"]) if (b >> 4) % 2 else None))
        elif which == 10:
            n.attributes["extra_tps"] = ir.AttrTypeProtos("extra_tps", [ir.TypeAndShape(ir.SequenceType(ir.TensorType(ir.DataType.FLOAT)), None), ir.TypeAndShape(ir.TensorType(ir.DataType.BOOL), ir.Shape([]))][: 1 + (b >> 4) % 2])
        elif which == 11:
            n.attributes["extra_fs_empty"] = ir.AttrFloat32s("extra_fs_empty", [])
        elif which == 12:
            # inside a function: a reference to one of the function's own attributes
            owner = next((f for f in model.functions.values() if any(x is n for x in f.all_nodes())), None)
            if owner is None or not owner.attributes:
                return "noop"
            nm = list(owner.attributes)[(b >> 4) % len(owner.attributes)]
            n.attributes["extra_ref"] = ir.RefAttr("extra_ref", nm, owner.attributes[nm].type)
        elif which == 0:
            n.attributes["extra_i"] = ir.AttrInt64("extra_i", b % 7)
        elif which == 1:
            n.attributes["extra_s"] = ir.AttrStrings("extra_s", ["a", "b"][: 1 + b % 2])
        elif which == 2:
            n.attributes["extra_t"] = ir.AttrTensor("extra_t", ir.Tensor(np.arange(3, dtype=np.int64), name=fresh("at")))
        elif which == 3:
            n.attributes["extra_f"] = ir.AttrFloat32s("extra_f", [0.5, 1.5])
        else:
            n.attributes["extra_d"] = ir.Attr("extra_d", ir.AttributeType.INT, 3, doc_string="attr doc")
    elif kind == "attr_del":
        keys = [k for k, a_ in n.attributes.items() if a_.type not in (ir.AttributeType.GRAPH, ir.AttributeType.GRAPHS)]
        if not keys:
            return "noop"
        del n.attributes[keys[b % len(keys)]]
    elif kind == "retensor":
        inits = [x for g in model.graphs() for x in g.initializers.values() if x.const_value is not None]
        if not inits:
            return "noop"
        iv = inits[a % len(inits)]
        old = iv.const_value
        arr = old.numpy()
        which = b % 5
        if which == 0:
            iv.const_value = ir.Tensor(relayout(arr.copy(), LAYOUTS[(b >> 3) % len(LAYOUTS)]), name=iv.name)
        elif which == 1:
            tp = onnx.TensorProto()
            tp.name = iv.name
            tp.data_type = int(old.dtype)
            tp.dims.extend(arr.shape)
            field = (b >> 6) % 8
            if b % 2 and old.dtype == ir.DataType.FLOAT:
                tp.float_data.extend(arr.ravel().tolist())
            elif (b >> 5) % 2 and old.dtype == ir.DataType.FLOAT and field < 7:
                # the same numbers stored through one of the other typed storage fields of TensorProto
                flat = arr.ravel()
                dt, fld, conv = [
                    (onnx.TensorProto.INT64, "int64_data", lambda x: x.astype(np.int64)), (onnx.TensorProto.INT32, "int32_data", lambda x: x.astype(np.int32)),
                    (onnx.TensorProto.DOUBLE, "double_data", lambda x: x.astype(np.float64)), (onnx.TensorProto.UINT64, "uint64_data", lambda x: x.astype(np.uint64)),
                    (onnx.TensorProto.BOOL, "int32_data", lambda x: (x > 1).astype(np.int32)), (onnx.TensorProto.INT8, "int32_data", lambda x: x.astype(np.int8).astype(np.int32)),
                    (onnx.TensorProto.FLOAT16, "int32_data", lambda x: x.astype(np.float16).view(np.uint16).astype(np.int32)),
                ][field]  # fmt: skip
                tp.data_type = dt
                getattr(tp, fld).extend(conv(flat).tolist())
                iv.type = ir.TensorType(ir.DataType(dt)) if iv.type is not None else None
            else:
                tp.raw_data = arr.tobytes()
            iv.const_value = ir.serde.deserialize_tensor(tp)
        elif which == 2:
            iv.const_value = ir.LazyTensor(lambda arr=relayout(arr.copy(), LAYOUTS[(b >> 3) % len(LAYOUTS)]), name=iv.name: ir.Tensor(arr, name=name), dtype=old.dtype, shape=ir.Shape(arr.shape), name=iv.name, cache=bool(b % 2))
        elif which == 3:
            iv.const_value = ir.ExternalTensor("weights/w.bin", 16 * (b % 4), old.nbytes, old.dtype, shape=ir.Shape(arr.shape), name=iv.name)
        else:
            packed = np.arange(3, dtype=np.uint8)
            iv.const_value = ir.PackedTensor(packed, ir.DataType.UINT4, shape=[5], name=iv.name)
            iv.shape = ir.Shape([5])
            iv.type = ir.TensorType(ir.DataType.UINT4)
        if (b >> 4) % 2:
            # metadata and doc string carried by the tensor itself
            iv.const_value.metadata_props["tk"] = f"tv{b % 3}"
            try:
                iv.const_value.doc_string = "tensor doc"
            except Exception:  # noqa: BLE001
                pass
    elif kind == "tensor_meta":
        # metadata carried by a tensor itself (initializer or Constant attribute), edited in place: added, removed, emptied
        ts = [x.const_value for g in model.graphs() for x in g.initializers.values() if x.const_value is not None]
        for x in nodes:
            for at in x.attributes.values():
                if not at.is_ref() and at.type == ir.AttributeType.TENSOR and at.value is not None:
                    ts.append(at.value)
        ts = [t for t in ts if hasattr(t, "metadata_props")]
        if not ts:
            return "noop"
        t = ts[a % len(ts)]
        which = b % 4
        try:
            if which == 0:
                t.metadata_props[f"tk{b % 3}"] = f"tv{(b >> 3) % 3}"
            elif which == 1:
                if t.metadata_props:
                    del t.metadata_props[sorted(t.metadata_props)[0]]
            elif which == 2:
                t.metadata_props.clear()
            else:
                t.doc_string = None if (b >> 3) % 2 else "tdoc"
        except (TypeError, AttributeError):
            return "noop"
    elif kind == "share_tensor_attr":
        # ONE tensor object behind an initializer and behind a Constant node's attribute (tensors may be shared)
        inits = [x for g in model.graphs() for x in g.initializers.values() if x.const_value is not None and x.const_value.dtype == ir.DataType.FLOAT]
        consts = [x for x in nodes if x.op_type == "Constant" and "value" in x.attributes and not x.attributes["value"].is_ref() and x.attributes["value"].type == ir.AttributeType.TENSOR]
        if not inits or not consts:
            return "noop"
        iv, cn = inits[a % len(inits)], consts[b % len(consts)]
        if (b >> 4) % 2:
            # the initializer adopts the Constant's tensor (which keeps its own name: const_value= does not rename it)
            t = cn.attributes["value"].value
            iv.const_value = t
            iv.shape = ir.Shape(list(t.shape.numpy())) if iv.shape is not None else None
            iv.type = ir.TensorType(t.dtype) if iv.type is not None else None
        else:
            cn.attributes["value"] = ir.AttrTensor("value", iv.const_value)
            out0 = cn.outputs[0]
            t = iv.const_value
            out0.shape = ir.Shape(list(t.shape.numpy())) if out0.shape is not None else None
            out0.type = ir.TensorType(t.dtype) if out0.type is not None else None
    elif kind == "io_roles":
        # values in several roles of the main graph: an initializer / input that is also an output, an output dropped
        # again, an initializer turned into the output of a Constant node (same Value object, consumers stay connected)
        g = model.graph
        which = b % 4
        if which == 0 and g.initializers:
            v_ = list(g.initializers.values())[a % len(g.initializers)]
            if not any(v_ is o for o in g.outputs):
                g.outputs.append(v_)
        elif which == 1 and g.inputs:
            v_ = g.inputs[a % len(g.inputs)]
            if not any(v_ is o for o in g.outputs):
                g.outputs.append(v_)
        elif which == 2 and len(g.outputs) > 1:
            del g.outputs[a % len(g.outputs)]
        elif which == 3 and g.initializers:
            cands = [x for x in g.initializers.values() if not x.is_graph_input() and x.const_value is not None and not isinstance(x.const_value, (ir.LazyTensor, ir.ExternalTensor))]
            if not cands:
                return "noop"
            v_ = cands[a % len(cands)]
            was_output = [i_ for i_, o in enumerate(g.outputs) if o is v_]
            for i_ in reversed(was_output):
                del g.outputs[i_]
            t_ = v_.const_value
            g.initializers.pop(v_.name)
            v_.const_value = None
            cn = ir.Node("", "Constant", [], [ir.AttrTensor("value", t_)], outputs=[v_], name=fresh("n"))
            first = g[0] if len(g) else None
            if first is not None:
                g.insert_before(first, cn)
            else:
                g.append(cn)
            if was_output and (b >> 3) % 2:
                g.outputs.append(v_)
        else:
            return "noop"
    elif kind == "lazy_transient":
        # an initializer (or a Constant's tensor) becomes a lazily loaded tensor whose loader fails the first time(s)
        inits = [x for g in model.graphs() for x in g.initializers.values() if x.const_value is not None and not isinstance(x.const_value, ir.LazyTensor)]
        consts = [x for x in nodes if x.op_type == "Constant" and "value" in x.attributes and not x.attributes["value"].is_ref() and x.attributes["value"].type == ir.AttributeType.TENSOR and not isinstance(x.attributes["value"].value, ir.LazyTensor)]
        pool = [("i", x) for x in inits] + [("c", x) for x in consts]
        if not pool:
            return "noop"
        where_, x = pool[a % len(pool)]
        old_t = x.const_value if where_ == "i" else x.attributes["value"].value
        try:
            arr = old_t.numpy().copy()
        except Exception:  # noqa: BLE001
            return "noop"
        state = {"left": 1 + b % 2}

        def loader(arr=arr, state=state, nm=old_t.name):
            if state["left"] > 0:
                state["left"] -= 1
                raise OSError("injected: weights not reachable right now")
            return ir.Tensor(arr, name=nm)

        lz = ir.LazyTensor(loader, dtype=old_t.dtype, shape=ir.Shape(list(arr.shape)), name=old_t.name, cache=bool((b >> 2) % 2))
        if where_ == "i":
            x.const_value = lz
        else:
            x.attributes["value"] = ir.AttrTensor("value", lz)
    elif kind == "share_tensor":
        # two differently named initializers backed by ONE tensor object (e.g. tied weights)
        for g in model.graphs():
            inits = [x for x in g.initializers.values() if x.const_value is not None]
            if len(inits) >= 2:
                src, dst = inits[a % len(inits)], inits[(a + 1 + b % (len(inits) - 1)) % len(inits)]
                if src is dst:
                    continue
                dst.const_value = src.const_value
                t = src.const_value
                if dst.shape is not None or dst.type is not None:
                    dst.shape = ir.Shape(list(t.shape.numpy())) if dst.shape is not None else None
                    dst.type = ir.TensorType(t.dtype) if dst.type is not None else None
                return "ok"
        return "noop"
    elif kind == "shadow_name":
        # a value defined inside a nested graph takes the name of a value visible from an enclosing graph that the
        # nested graph (and anything below it) does not use: legal in the IR, and the inner definition must win inside
        owners = [x for x in model.graph.all_nodes() if any(a_.type == ir.AttributeType.GRAPH for a_ in x.attributes.values())]
        if not owners:
            return "noop"
        owner = owners[a % len(owners)]
        subs = [a_.value for a_ in owner.attributes.values() if a_.type == ir.AttributeType.GRAPH and a_.value is not None]
        sg = subs[b % len(subs)]
        inner_vals = [o for x in sg for o in x.outputs if o.name]
        if not inner_vals:
            return "noop"
        used_inside = {id(i) for x in sg.all_nodes() for i in x.inputs if i is not None}
        defined_inside = {id(o) for x in sg.all_nodes() for o in x.outputs} | {id(i) for i in sg.inputs} | {id(i) for i in sg.initializers.values()}
        og = owner.graph
        if og is None:
            return "noop"
        outer = list(og.inputs) + list(og.initializers.values())
        for x in og:
            if x is owner:
                break
            outer.extend(x.outputs)
        outer = [o for o in outer if o.name and id(o) not in used_inside and id(o) not in defined_inside and not o.is_initializer()]
        inner_names = {o.name for x in sg.all_nodes() for o in x.outputs} | {i.name for i in sg.inputs} | set(sg.initializers)
        outer = [o for o in outer if o.name not in inner_names]
        if not outer:
            return "noop"
        tgt = inner_vals[(a >> 4) % len(inner_vals)]
        tgt.name = outer[(b >> 4) % len(outer)].name
    elif kind == "symbolic_shape" and v is not None:
        v.shape = [ir.Shape(["batch", 3, None][: 1 + b % 3]), ir.Shape([None, 3]), ir.Shape([None]), ir.Shape([2, None, "W"]), ir.Shape([None, 3, "W"], denotations=["DATA_BATCH", None, "DATA_FEATURE"])][(b // 3) % 5]
    elif kind == "denotation" and v is not None:
        if v.shape is not None and len(v.shape):
            # any dimension kind (sized, named, unknown) can carry a denotation
            v.shape.set_denotation((a >> 3) % len(v.shape), ["DATA_BATCH", "DATA_CHANNEL", "DATA_FEATURE"][(a >> 7) % 3])
        if v.type is not None:
            try:
                v.type.denotation = "TENSOR"
            except Exception:  # noqa: BLE001
                pass
    elif kind == "seq_type" and v is not None:
        v.type = [ir.OptionalType(ir.SequenceType(ir.TensorType(ir.DataType.FLOAT))), ir.SequenceType(ir.TensorType(ir.DataType.INT64)), ir.SparseTensorType(ir.DataType.FLOAT), ir.SequenceType(ir.SparseTensorType(ir.DataType.INT32)), ir.OptionalType(ir.TensorType(ir.DataType.BOOL))][b % 5]
    else:
        return "noop"
    return "ok"


ALT_SERIALIZERS = ["onnx_text", "onnx_text_no_initializers", "serialize_model", "graph", "functions", "save_file"]


def _alt_serialize(model, which: str):
    if which == "onnx_text":
        ir.to_onnx_text(model)
    elif which == "onnx_text_no_initializers":
        ir.to_onnx_text(model, exclude_initializers=True)
    elif which == "serialize_model":
        ir.serde.serialize_model(model)
    elif which == "graph":
        ir.to_proto(model.graph)
    elif which == "functions":
        for f in model.functions.values():
            ir.to_proto(f)
    else:
        import tempfile

        d = tempfile.mkdtemp(prefix="verif-c03-", dir="/dev/shm" if os.path.isdir("/dev/shm") else None)
        try:
            ir.save(model, os.path.join(d, "m.onnx"))
        finally:
            import shutil

            shutil.rmtree(d, ignore_errors=True)


def alt_probe(model, w: World, inc, where: str, which: str):
    """The other public serialization entry points are observers too: returned or raised, the model is what it was."""
    if not isinstance(model, ir.Model):
        return None
    before = snapshot.snapshot(w, tensors=False)
    outcome = "ok"
    try:
        _alt_serialize(model, which)
    except Exception as e:  # noqa: BLE001
        outcome = "raised " + type(e).__name__
        inc("alt_serializer_raised_" + which)
    inc("alt_serializer_" + which)
    after = snapshot.snapshot(w, tensors=False)
    if after != before:
        d = snapshot.diff(before, after)
        return {"clause": "serialization-changed-model", "detail": f"{where}: {which} ({outcome}) changed the model: {str(d[:2])[:400]}", "key": f"serialization-changed-model|{which}|{'raised' if outcome != 'ok' else 'ok'}"}
    return None


def probe(model, w: World, inc, where: str):
    """to_proto as an observer: no side effects (a) and idempotent output (b).  Returns (violation|None, proto bytes|None)."""
    k = w.__dict__.get("_alt_k", 0)
    w.__dict__["_alt_k"] = k + 1
    if k % 2 == 0:
        v_alt = alt_probe(model, w, inc, where, ALT_SERIALIZERS[(k // 2 + len(w.values)) % len(ALT_SERIALIZERS)])
        if v_alt is not None:
            return (v_alt, None)
    before = snapshot.snapshot(w, tensors=False)
    tens_before = [(type(t).__name__, int(t.dtype), tuple(iso._dim(d) for d in t.shape.dims)) for t in w.tensors]
    try:
        p1 = ir.to_proto(model)
    except Exception as e:  # noqa: BLE001
        inc("to_proto_raised")
        after = snapshot.snapshot(w, tensors=False)
        if after != before:
            d = snapshot.diff(before, after)
            return ({"clause": "failed-serialization-changed-model", "detail": f"{where}: to_proto raised {type(e).__name__} and changed the model: {str(d[:2])[:400]}", "key": "failed-serialization-changed-model"}, None)
        return (None, None)
    inc("to_proto_ok")
    after = snapshot.snapshot(w, tensors=False)
    if after != before:
        d = snapshot.diff(before, after)
        return ({"clause": "serialization-changed-model", "detail": f"{where}: to_proto changed the model: {str(d[:2])[:400]}", "key": f"serialization-changed-model|{d[0][1] if d else '?'}"}, None)
    tens_after = [(type(t).__name__, int(t.dtype), tuple(iso._dim(d) for d in t.shape.dims)) for t in w.tensors[: len(tens_before)]]
    if tens_after != tens_before:
        return ({"clause": "serialization-changed-tensor", "detail": f"{where}: to_proto changed a tensor's class/dtype/shape", "key": "serialization-changed-tensor"}, None)
    b1 = p1.SerializeToString(deterministic=True)
    try:
        b2 = ir.to_proto(model).SerializeToString(deterministic=True)
    except Exception as e:  # noqa: BLE001
        return ({"clause": "second-serialization-raised", "detail": f"{where}: the second to_proto raised {type(e).__name__}: {e}", "key": "second-serialization-raised"}, None)
    if b1 != b2:
        return ({"clause": "serializing-twice-differs", "detail": f"{where}: two consecutive to_proto calls give different protos", "key": "serializing-twice-differs"}, None)
    if isinstance(model, ir.Model) and model.ir_version < 11:
        # the multi-device fields exist from IR version 11 only: below it they are left out everywhere, at any depth
        def has_md(gp) -> str | None:
            for np_ in gp.node:
                if len(np_.device_configurations):
                    return np_.name
                for a_ in np_.attribute:
                    for sg in ([a_.g] if a_.HasField("g") else []) + list(a_.graphs):
                        r_ = has_md(sg)
                        if r_ is not None:
                            return r_
            return None

        bad = has_md(p1.graph)
        for fp in p1.functions:
            bad = bad or has_md(fp)
        if bad is not None or len(p1.configuration):
            return ({"clause": "multi-device-fields-below-ir-version-11", "detail": f"{where}: the proto of an ir_version={model.ir_version} model carries device configurations (node {bad!r})", "key": "multi-device-fields-below-ir-version-11"}, None)
    return (None, p1)


def run_case(case: dict) -> dict:
    stats: dict = {}
    res = {"violation": None, "error": None, "stats": stats, "steps": 0, "distinct": [], "states": [], "case": case}

    def inc(k, n=1):
        stats[k] = stats.get(k, 0) + n

    trace = []
    # ---------------- part A: observer inside an Engine A history
    w = World()
    probes = set(case.get("probes", []))
    for i, op in enumerate(case.get("ops", []) + [None]):
        if i in probes and w.models:
            m = w.models[i % len(w.models)]
            v, _p = probe(m, w, inc, f"history step {i}")
            trace.append(("probe", i, v is None))
            if v is not None:
                c = copy.deepcopy(case)
                c["ops"] = case["ops"][:i]
                c["probes"] = [i]
                c["edits"] = []
                c["skip_b"] = True
                res["case"] = c
                res["violation"] = v
                res["event_digest"] = digest(trace)
                return res
        if op is not None:
            r = ops.apply_op(w, op)
            trace.append((op[0], r[0]))
    if case.get("skip_b"):
        res["event_digest"] = digest(trace)
        return res
    # ---------------- part B: edited generated model, full round trip
    rng = random.Random(case["model_seed"])
    model = modelgen.gen_model(rng, modelgen.Params(**case["params"]))
    k = [0]

    def fresh(p):
        k[0] += 1
        return f"{p}_{k[0]}"

    if case.get("devices"):
        drng = random.Random(case["model_seed"] ^ 0xD0C)
        cfgs = [model.add_device_configuration("cfg0", num_devices=2)]
        if drng.random() < 0.4:
            cfgs.append(model.add_device_configuration("cfg1", num_devices=4, device_names=["a", "b", "c", "d"]))
        # annotate nodes anywhere: main graph, control-flow bodies at any depth, function bodies
        everywhere = list(model.graph.all_nodes()) + [n for f in model.functions.values() for n in f.all_nodes()]
        drng.shuffle(everywhere)
        for n in everywhere[: drng.choice([1, 3, 6])]:
            cfg = drng.choice(cfgs)
            try:
                cands = [v for v in list(n.outputs) + list(n.inputs) if v is not None and v.name and v.shape is not None and len(v.shape) > 0]
                if cands and drng.random() < 0.8:
                    n.shard(drng.choice(cands), configuration=cfg, axis=0, num_shards=2, device_indices=(0, 1))
                    inc("device_annotations")
                    if n.graph is not None and n.graph is not model.graph and not any(n.graph is f.graph for f in model.functions.values()):
                        inc("device_annotations_in_subgraph")
                if drng.random() < 0.4:
                    n.set_pipeline_stage(cfg, drng.randrange(3))
                    inc("device_pipeline_stage")
            except Exception:  # noqa: BLE001
                inc("device_annotation_rejected")
    for ei, e in enumerate(case["edits"]):
        if case.get("reload_at") == ei:
            # continue on a deserialized copy: its tensors are proto-backed and remember what the proto said
            try:
                model = ir.from_proto(ir.to_proto(model))
                inc("reloaded_mid_history")
            except Exception:  # noqa: BLE001
                pass
        try:
            out = apply_edit(model, e, fresh)
        except Exception as ex:  # noqa: BLE001
            out = "raise:" + type(ex).__name__
        trace.append((e[0], out))
        inc("edit_" + e[0] + "_" + out.split(":")[0])
    w2 = World()
    w2.reg(model)
    v, p1 = probe(model, w2, inc, "generated model")
    if v is None and p1 is not None:
        inc("roundtrip_compared")
        # every initializer tensor's own name is aligned with its value's name (the one permitted side effect)
        sharers: dict = {}
        for g in model.graphs():
            for name, val in g.initializers.items():
                if val.const_value is not None:
                    sharers.setdefault(id(val.const_value), []).append(name)
        for g in model.graphs():
            for name, val in g.initializers.items():
                # a tensor object shared by several initializers can carry only one of their names
                if val.const_value is not None and val.const_value.name not in sharers[id(val.const_value)]:
                    v = {"clause": "initializer-tensor-name", "detail": f"after to_proto the tensor of initializer {name!r} is named {val.const_value.name!r}", "key": "initializer-tensor-name"}
        if v is None:
            try:
                back = ir.from_proto(p1)
            except Exception as e:  # noqa: BLE001
                v = {"clause": "deserialization-raised", "detail": f"from_proto(to_proto(model)) raised {type(e).__name__}: {str(e)[:300]}", "key": "deserialization-raised"}
        if v is None:
            # one tensor object behind differently named initializers can carry only one of their names; if a node
            # attribute holds it too, the name written for the attribute is one of them and the object keeps another
            ambiguous = any(len(set(ns)) > 1 for ns in sharers.values())
            if ambiguous:
                inc("attr_tensor_names_left_out_tensor_shared_by_two_initializers")
            a, b = iso.canon_model(model, not ambiguous), iso.canon_model(back, not ambiguous)
            if a != b:
                d = iso.first_difference(a, b)
                field = (d or "").split(":")[0]
                import re

                field = re.sub(r"\[\d+\]", "[]", field)
                v = {"clause": "roundtrip-not-isomorphic", "detail": f"IR -> proto -> IR differs at {d}", "key": f"roundtrip-not-isomorphic|{field}"}
            else:
                res["distinct"] = [digest((case["model_seed"], case["params"], case["edits"]))]
    if v is not None:
        c = copy.deepcopy(case)
        c["ops"] = []
        c["probes"] = []
        res["case"] = c
        res["violation"] = v
    res["steps"] = len(trace)
    res["event_digest"] = digest(trace)
    res["sample"] = {"params": {k_: v_ for k_, v_ in case["params"].items() if k_ in ("n_nodes", "n_functions", "depth", "typed", "unsorted", "ir_version")}, "edits": [e[0] for e in case["edits"]]}
    return res


def shrink_candidates(case: dict, violation: dict):
    if case.get("skip_b"):
        op_list = case["ops"]
        n = len(op_list)
        for width in (16, 8, 4, 2, 1):
            for lo in range(0, n, width):
                hi = min(n, lo + width)
                if hi - lo >= n:
                    continue
                c = copy.deepcopy(case)
                c["ops"] = op_list[:lo] + op_list[hi:]
                c["probes"] = [len(c["ops"])]
                yield c
        return
    for i in range(len(case["edits"])):
        c = copy.deepcopy(case)
        c["edits"] = case["edits"][:i] + case["edits"][i + 1 :]
        ra = case.get("reload_at")
        if ra is not None:
            c["reload_at"] = ra - 1 if i < ra else (ra if ra < len(c["edits"]) else None)
        yield c
    if case.get("reload_at") is not None:
        c = copy.deepcopy(case)
        c["reload_at"] = None
        yield c
    if case.get("devices"):
        c = copy.deepcopy(case)
        c["devices"] = False
        yield c
    for key, vals in (("n_nodes", [1, 2, 3]), ("n_functions", [0]), ("depth", [0, 1]), ("n_inits", [0, 1]), ("n_inputs", [0, 1]), ("metadata", [False]), ("unsorted", [False]), ("typed", [False])):
        for val in vals:
            cur = case["params"].get(key)
            if cur != val and (isinstance(val, bool) or val < cur):
                c = copy.deepcopy(case)
                c["params"][key] = val
                yield c


def finding_key(case: dict, violation: dict) -> str:
    return violation.get("key") or violation.get("clause")


def check_reach(agg: dict, tier: str):
    st = agg["stats"]
    need = ["to_proto_ok", "to_proto_raised", "roundtrip_compared", "edit_retensor_ok", "edit_empty_optional_output_ok", "edit_none_input_ok", "edit_seq_type_ok", "device_annotations", "device_annotations_in_subgraph"]
    missing = [k for k in need if not st.get(k)]
    return missing if agg["runs"] > 300 else []
