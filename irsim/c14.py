"""C14 — passes honour their contract: identity, modified flag, fixpoint, no damage.

Pass schedules x faults at the ONNX boundary on generated checker-valid (and
deliberately noisy) models.  See DESIGN.md section 6 (C14).
"""

from __future__ import annotations

import copy
import logging
import random
import types

import onnx
import onnx_ir as ir
import onnx_ir.passes.common as cp
from onnx_ir.passes.common import onnx_checker as _checker_mod
from onnx_ir.passes.common import shape_inference as _shape_mod

from irsim import invariants, modelgen, snapshot
from irsim.world import World
from simcore import knobs as _knobs
from simcore.prng import Streams, digest

logging.getLogger("onnx_ir").setLevel(logging.CRITICAL)

PROPERTY = "C14"
LEVEL = "exploration"
TIERS = {
    "quick": {"max_runs": 3200, "optimize_runs": 640, "wall": 420, "optimize_wall": 180, "chunk": 20, "shrink_budget": 250, "shrink_wall": 60},
    "thorough": {"wall": 900, "optimize_wall": 120, "chunk": 50, "shrink_budget": 500, "shrink_wall": 240},
}
RULE = (
    "each run = one seeded model (typed checker-valid vocabulary: elementwise chains, duplicated subexpressions, Constant forms, multi-output "
    "ops, If bodies capturing outer values with own initializers, duplicate small/large initializers, model functions with attribute "
    "parameters, unused nodes/functions/opsets, missing/duplicate names, optionally unsorted) and a schedule of 3-8 steps, each applying one "
    "of the 19 exported passes (with option variants) singly, repeatedly until fixpoint, inside Sequential / nested PassManager(steps, "
    "early_stop) or functionalized, optionally with a fault armed at the ONNX boundary (checker / shape inference raising ValidationError, "
    "RuntimeError or MemoryError; a lazy initializer whose thunk raises during serialization); distinct = digest of (model spec, schedule, "
    "outcomes); non-trivial = at least one pass modified the model or a boundary fault fired"
)
ASSUMPTIONS = [
    "'serializes exactly as before' is compared on deterministic protobuf bytes of ir.to_proto(model); skipped (and counted) when the model is not serializable",
    "the convergence bound is 1 + |nodes| + |values| + |initializers| + |functions| of the model before the first application",
    "a pass that raises on a model is counted, not flagged (the statement speaks about what a pass returns); analysis-only passes must leave the model unchanged also when they raise",
    "onnx.checker.check_model / onnx.shape_inference.infer_shapes are wrapped: the real C API runs unless a fault is armed",
    "the ONNX C++ library segfaults on some protos with duplicated/missing names; CheckerPass and ShapeInferencePass are therefore scheduled only on models with well-formed names",
]
REAL_STUB = {"real": ["all 19 passes in onnx_ir.passes.common", "PassBase / Sequential / PassManager / functionalize", "call_onnx_api", "serde", "onnx C API (checker, shape inference) when no fault is armed"], "stub": ["armed faults at the ONNX boundary"], "harness_extension_points": ["LazyTensor thunk that raises"]}

PASSES = {
    "AddDefaultAttributes": lambda o: cp.AddDefaultAttributesPass(),
    "AddInitializersToInputs": lambda o: cp.AddInitializersToInputsPass(),
    "Checker": lambda o: cp.CheckerPass(full_check=bool(o % 2)),
    "ClearMetadataAndDocString": lambda o: cp.ClearMetadataAndDocStringPass(),
    "CSE": lambda o: cp.CommonSubexpressionEliminationPass(size_limit=[10, 0, 1000][o % 3]),
    "DeduplicateHashedInitializers": lambda o: cp.DeduplicateHashedInitializersPass(size_limit=[4 << 30, 100][o % 2]),
    "DeduplicateInitializers": lambda o: cp.DeduplicateInitializersPass(size_limit=[1024, 10, 1 << 20][o % 3]),
    "IdentityElimination": lambda o: cp.IdentityEliminationPass(),
    "Inline": lambda o: cp.InlinePass(),
    "LiftConstantsToInitializers": lambda o: cp.LiftConstantsToInitializersPass(lift_all_constants=bool(o % 2), size_limit=[16, 0, 4][o % 3]),
    "LiftSubgraphInitializersToMainGraph": lambda o: cp.LiftSubgraphInitializersToMainGraphPass(),
    "NameFix": lambda o: cp.NameFixPass(),
    "OutputFix": lambda o: cp.OutputFixPass(),
    "RemoveInitializersFromInputs": lambda o: cp.RemoveInitializersFromInputsPass(),
    "RemoveUnusedFunctions": lambda o: cp.RemoveUnusedFunctionsPass(),
    "RemoveUnusedNodes": lambda o: cp.RemoveUnusedNodesPass(),
    "RemoveUnusedOpsets": lambda o: cp.RemoveUnusedOpsetsPass(process_functions=bool(o % 2)),
    "ShapeInference": lambda o: cp.ShapeInferencePass(check_type=bool(o % 2), strict_mode=bool((o >> 1) % 2), data_prop=bool((o >> 2) % 2)),
    "TopologicalSort": lambda o: cp.TopologicalSortPass(),
}
ANALYSIS_ONLY = {"Checker"}
BOUNDARY = {"Checker": "check_model", "ShapeInference": "infer_shapes"}
MODES = ["single", "single", "repeat", "sequential", "manager", "functional", "fmanager", "fseq"]
def _has_graph_reference_attributes(proto) -> bool:
    if isinstance(proto, (bytes, bytearray)):
        try:
            proto = onnx.ModelProto.FromString(bytes(proto))
        except Exception:  # noqa: BLE001
            return False
    try:
        return any(a.ref_attr_name and a.type in (onnx.AttributeProto.GRAPH, onnx.AttributeProto.GRAPHS) for f in proto.functions for n in f.node for a in n.attribute)
    except Exception:  # noqa: BLE001
        return False


EXCS = {"ValidationError": lambda: onnx.checker.ValidationError("injected"), "RuntimeError": lambda: RuntimeError("injected"), "MemoryError": lambda: MemoryError("injected")}


def gen_case(run_seed: int, tier: str, index: int = 0) -> dict:
    r = Streams(run_seed).rng("workload")
    params = dict(
        p_graphs=Streams(run_seed).rng("graphs-attr").choice([0.0, 0.0, 0.12, 0.25]), ref_graph_attrs=Streams(run_seed).rng("ref-graph-attrs").choice([0.0, 0.0, 0.6]), hinted_inputs=Streams(run_seed).rng("hinted-inputs").choice([0.0, 0.0, 0.6]), n_nodes=r.choice([2, 4, 6, 9, 14]), n_inputs=r.choice([0, 1, 2, 3]), n_inits=r.choice([0, 1, 2, 4]), n_outputs=r.choice([1, 2, 3]),
        n_functions=r.choice([0, 1, 2]), depth=r.choice([0, 1, 2]), typed=r.random() < 0.8, p_if=r.choice([0.1, 0.3]), p_dup=r.choice([0.2, 0.5]),
        p_const=r.choice([0.1, 0.3]), p_unused=r.choice([0.1, 0.4]), metadata=r.random() < 0.5, big_init=r.random() < 0.4, dup_inits=r.random() < 0.4,
        unused_function=r.random() < 0.3, init_as_input=r.choice([0.0, 0.3, 1.0]), name_noise=r.choice([0.0, 0.0, 0.3]), unsorted=r.random() < 0.25, name_style=r.choice([0, 0, 1]), func_name_overlap=r.choice([0.0, 0.0, 0.5, 1.0]),
        lazy_failing_init=r.random() < 0.15, annot_noise=r.choice([0.0, 0.0, 0.3, 0.6]),
        more_ops=Streams(run_seed).rng("more-ops").random() < 0.6, alias_outputs=Streams(run_seed).rng("alias-outputs").choice([0.0, 0.0, 0.5, 1.0]),
    )  # fmt: skip
    names = list(PASSES)
    if params["name_noise"]:
        # onnx's C++ checker / shape inference can segfault on protos with duplicated or missing names (not ir-py code):
        # the C-API passes are scheduled only on models whose names are well formed
        names = [n for n in names if n not in BOUNDARY]
    schedule = []
    for _ in range(r.choice([3, 4, 6, 8])):
        p = r.choice(names) if (r.random() < 0.7 or params["name_noise"]) else r.choice(["Checker", "ShapeInference"])
        step = {"pass": p, "opt": r.randrange(8), "mode": r.choice(MODES), "fault": None}
        if step["mode"] == "fseq":
            # functionalize(<composition>): the composition often starts with a pass that only inspects the model, and
            # its members are a mix of in-place passes and already functionalized ones
            fr = Streams(run_seed).rng(f"fseq-{len(schedule)}")
            if fr.random() < 0.5 and "Checker" in names:
                step["pass"] = p = "Checker"
            step["others"] = [[fr.choice(names), fr.randrange(8)] for _ in range(fr.choice([1, 2, 3]))]
            step["wrap"] = [fr.random() < 0.4 for _ in step["others"]]
            step["steps"] = fr.choice([1, 2])
            step["early_stop"] = fr.random() < 0.6
            step["as_manager"] = fr.random() < 0.5
        if step["mode"] in ("sequential", "manager", "fmanager"):
            step["others"] = [[r.choice(names), r.randrange(8)] for _ in range(r.choice([1, 2]))]
            step["steps"] = r.choice([1, 2, 3])
            step["early_stop"] = r.random() < 0.6
        if p in BOUNDARY and r.random() < 0.4:
            step["fault"] = {"exc": r.choice(list(EXCS))}
        # a pass may be handed the PassResult of the previous pass instead of the model (chaining form)
        step["via_result"] = Streams(run_seed).rng(f"via-result-{len(schedule)}").random() < 0.2
        step["sibling_first"] = Streams(run_seed).rng(f"sibling-first-{len(schedule)}").random() < 0.35
        schedule.append(step)
    model_seed = r.randrange(1 << 30)
    reuse = Streams(run_seed).rng("reuse-pass-objects").random() < 0.4
    dr = Streams(run_seed).rng("directed-stale-pass-state")
    if dr.random() < 0.08:
        # directed: a long-lived pass object first sees an earlier version of the model (helpers not called yet), then the
        # model itself, in which functions call other functions
        params.update(n_functions=2, p_call=0.45, unused_function=False, unsorted=False, name_noise=0.0, lazy_failing_init=False)
        model_seed &= ~1
        reuse = True
        first = dr.choice(["RemoveUnusedFunctions", "RemoveUnusedFunctions", "Inline", "RemoveUnusedOpsets", "RemoveUnusedNodes"])
        schedule.insert(0, {"pass": first, "opt": 0, "mode": "single", "fault": None, "via_result": False, "sibling_first": True})
    return {"property": PROPERTY, "warnings_error": _knobs.warnings_knob(run_seed), "run_seed": run_seed, "model_seed": model_seed, "params": params, "schedule": schedule, "reuse_pass_objects": reuse}


class _Boundary:
    """Wraps onnx.checker.check_model / onnx.shape_inference.infer_shapes inside the pass modules."""

    def __init__(self) -> None:
        self.armed: dict | None = None
        self.fired = 0
        self.calls = 0
        self.stubbed = 0
        real = onnx

        def check_model(*a, **k):
            self.calls += 1
            if self.armed is not None:
                self.fired += 1
                raise EXCS[self.armed["exc"]]()
            return real.checker.check_model(*a, **k)

        def infer_shapes(*a, **k):
            self.calls += 1
            if self.armed is not None:
                self.fired += 1
                raise EXCS[self.armed["exc"]]()
            if a and _has_graph_reference_attributes(a[0]):
                # onnx's C++ shape inference dereferences the (absent) graph of an If whose branches are reference
                # attributes and kills the process - not ir-py code.  Stub of the boundary: nothing is inferred.
                self.stubbed += 1
                return a[0] if not isinstance(a[0], (bytes, bytearray)) else bytes(a[0])
            return real.shape_inference.infer_shapes(*a, **k)

        checker_ns = types.SimpleNamespace(**{k: getattr(real.checker, k) for k in dir(real.checker) if not k.startswith("__")})
        checker_ns.check_model = check_model
        shape_ns = types.SimpleNamespace(**{k: getattr(real.shape_inference, k) for k in dir(real.shape_inference) if not k.startswith("__")})
        shape_ns.infer_shapes = infer_shapes

        class Proxy:
            checker = checker_ns
            shape_inference = shape_ns

            def __getattr__(self, name):
                return getattr(real, name)

        self.proxy = Proxy()
        self._saved = None

    def __enter__(self):
        if "onnx" not in _checker_mod.__dict__ or "onnx" not in _shape_mod.__dict__:
            raise RuntimeError("SEAM-LOST: the pass modules no longer import onnx as a module global")
        self._saved = (_checker_mod.onnx, _shape_mod.onnx)
        _checker_mod.onnx = self.proxy
        _shape_mod.onnx = self.proxy
        return self

    def __exit__(self, *exc):
        _checker_mod.onnx, _shape_mod.onnx = self._saved
        return False


def _proto_bytes(model) -> bytes | None:
    try:
        return ir.to_proto(model).SerializeToString(deterministic=True)
    except Exception:  # noqa: BLE001
        return None


def _subgraphs(node):
    for a in node.attributes.values():
        if isinstance(a, ir.Attr) and not a.is_ref():
            if a.type == ir.AttributeType.GRAPH and a.value is not None:
                yield a.value
            elif a.type == ir.AttributeType.GRAPHS and a.value is not None:
                yield from a.value


def is_sorted(model) -> bool:
    def graph_sorted(g, visible_producers: set) -> bool:
        seen = set(visible_producers)
        for n in g:
            for v in n.inputs:
                if v is None:
                    continue
                p = v.producer()
                if p is not None and p.graph is g and id(p) not in seen:
                    return False
            for sg in _subgraphs(n):
                # captured outer values produced in g must come from nodes before n
                for inner in sg.all_nodes():
                    for v in inner.inputs:
                        if v is None:
                            continue
                        p = v.producer()
                        if p is not None and p.graph is g and id(p) not in seen:
                            return False
                if not graph_sorted(sg, set()):
                    return False
            seen.add(id(n))
        return True

    tops = [model.graph] + [f.graph for f in model.functions.values()]
    return all(graph_sorted(g, set()) for g in tops)


def _all_graphs(model):
    tops = [model.graph] + [f.graph for f in model.functions.values()]
    out = []
    for g in tops:
        out.append(g)
        for n in g.all_nodes():
            out.extend(_subgraphs(n))
    return out


def _duplicate_value_names(model, require_all_named: bool = False) -> list:
    """Names carried by two different values defined in the same graph (inputs, initializers, node outputs).

    With require_all_named, a model holding any unnamed value reports ["unnamed"]: such a model is not in a
    serializable state to begin with, and name generation for it is C15's subject, not a pass's."""
    out = []
    if require_all_named:
        for g in _all_graphs(model):
            for v in list(g.inputs) + list(g.outputs) + [o for n in g for o in n.outputs] + [i for n in g for i in n.inputs if i is not None]:
                if not v.name:
                    return [("?", "unnamed")]
        # ... a graph listing one value twice among its outputs already serializes a repeated output name
        for g in _all_graphs(model):
            if len({id(v) for v in g.outputs}) != len(g.outputs):
                return [(g.name, "repeated-output")]
        # ... and so does a model in which two values of one top-level graph / function tree share a name across
        # scopes (shadowing): rewrites may legitimately move such values into one scope
        for top in [model.graph] + [f.graph for f in model.functions.values()]:
            seen_tree: dict = {}
            graphs_ = [top] + [sg for n in top.all_nodes() for sg in _subgraphs(n)]
            for g in graphs_:
                for v in list(g.inputs) + (list(g.initializers.values()) if hasattr(g, "initializers") else []) + [o for n in g for o in n.outputs]:
                    if v.name in seen_tree and seen_tree[v.name] is not v:
                        return [(g.name, "shadowed:" + v.name)]
                    seen_tree[v.name] = v
    for g in _all_graphs(model):
        seen: dict = {}
        vals = list(g.inputs) + (list(g.initializers.values()) if hasattr(g, "initializers") else []) + [o for n in g for o in n.outputs]
        for v in vals:
            if v.name:
                if v.name in seen and seen[v.name] is not v:
                    out.append((g.name, v.name))
                seen[v.name] = v
    return out


def _has_definition(v) -> bool:
    return v.producer() is not None or v.is_graph_input() or v.is_initializer()


def _defined_outputs(model) -> dict:
    """Graph / function / subgraph outputs that are defined somewhere (node output, graph input or initializer)."""
    return {id(v): v for g in _all_graphs(model) for v in g.outputs if v is not None and _has_definition(v)}


def _dangling_calls(model) -> set:
    """Operator identifiers of the model-local domain that are called somewhere but defined nowhere in model.functions."""
    local_domains = {k[0] for k in model.functions} | {"fdom"}
    called = set()
    nodes = list(model.graph.all_nodes())
    for f in model.functions.values():
        nodes.extend(f.all_nodes())
    for n in nodes:
        if n.domain in local_domains:
            called.add(n.op_identifier())
    return {c for c in called if c not in model.functions}


def _size_bound(model) -> int:
    nodes = list(model.graph.all_nodes())
    for f in model.functions.values():
        nodes.extend(f.all_nodes())
    values = set()
    inits = 0
    for g in list(model.graphs()) + [f.graph for f in model.functions.values()]:
        inits += len(g.initializers)
        for v in list(g.inputs) + list(g.initializers.values()):
            values.add(id(v))
    for n in nodes:
        for o in n.outputs:
            values.add(id(o))
    return 1 + len(nodes) + len(values) + inits + len(model.functions)


_PASS_CACHE: dict | None = None  # when set: pass objects are reused across the steps of a run (a pass object may be applied many times)


def _mk(name, opt):
    if _PASS_CACHE is None:
        return PASSES[name](opt)
    key = (name, opt)
    if key not in _PASS_CACHE:
        _PASS_CACHE[key] = PASSES[name](opt)
    return _PASS_CACHE[key]


def _build(step):
    p = _mk(step["pass"], step["opt"])
    mode = step["mode"]
    if mode == "sequential":
        return ir.passes.Sequential(p, *[_mk(n, o) for n, o in step["others"]])
    if mode == "manager":
        inner = ir.passes.PassManager([p] + [_mk(n, o) for n, o in step["others"]], steps=step["steps"], early_stop=step["early_stop"])
        return ir.passes.PassManager([inner], steps=2, early_stop=True)
    if mode == "functional":
        return ir.passes.functionalize(p)
    if mode == "fseq":
        members = [p] + [ir.passes.functionalize(_mk(n, o)) if wr else _mk(n, o) for (n, o), wr in zip(step["others"], step["wrap"])]
        comp = ir.passes.PassManager(members, steps=step["steps"], early_stop=step["early_stop"]) if step["as_manager"] else ir.passes.Sequential(*members)
        return ir.passes.functionalize(comp)
    if mode == "fmanager":
        # a manager composed of functional passes is itself functional
        return ir.passes.PassManager([ir.passes.functionalize(x) for x in [p] + [_mk(n, o) for n, o in step["others"]]], steps=step["steps"], early_stop=step["early_stop"])
    return p


def run_case(case: dict) -> dict:
    with _knobs.interpreter(case):
        return _run_case(case)


def _run_case(case: dict) -> dict:
    stats: dict = {}
    res = {"violation": None, "error": None, "stats": stats, "steps": 0, "distinct": [], "states": [], "case": case}

    def inc(k, n=1):
        stats[k] = stats.get(k, 0) + n

    rng = random.Random(case["model_seed"])
    model = modelgen.gen_model(rng, modelgen.Params(**case["params"]))
    sibling = None
    if case.get("reuse_pass_objects") and case["params"].get("n_functions"):
        import random as _random

        if case["model_seed"] % 2:
            sibling = modelgen.gen_model(_random.Random(case["model_seed"] ^ 0xABCD), modelgen.Params(**dict(case["params"], lazy_failing_init=False)))
        else:
            # an earlier version of the same model: same function identifiers, but no function calls another one yet
            # (the calls inside function bodies are plain Identity nodes) and helpers nobody calls do not exist
            try:
                sibling = model.clone()
                for f in sibling.functions.values():
                    for n in f.all_nodes():
                        if n.op_identifier() in sibling.functions:
                            n.domain, n.op_type = "", "Identity"
                called = {n.op_identifier() for n in sibling.graph.all_nodes()}
                for key in [k for k in sibling.functions if k not in called]:
                    del sibling.functions[key]
            except Exception:  # noqa: BLE001 - e.g. an unsorted model cannot be cloned
                sibling = None
    trace = []
    viol = None
    nontrivial = False
    try:
        boundary = _Boundary()
    except Exception as e:  # noqa: BLE001
        res["error"] = str(e)
        return res
    global _PASS_CACHE
    _PASS_CACHE = {} if case.get("reuse_pass_objects") else None
    if _PASS_CACHE is not None:
        inc("runs_reusing_pass_objects")
    with boundary:
        for si, step in enumerate(case["schedule"]):
            name, mode = step["pass"], step["mode"]
            try:
                p = _build(step)
            except Exception as e:  # noqa: BLE001
                res["error"] = f"cannot build pass {name}: {e}"
                return res
            analysis_only = mode in ("single", "repeat") and name in ANALYSIS_ONLY
            w = World()
            w.reg(model)
            snap_before = snapshot.snapshot(w, tensors=False)
            proto_before = _proto_bytes(model)
            sorted_before = is_sorted(model)
            defined_before = _defined_outputs(model)
            dups_before = _duplicate_value_names(model, require_all_named=True)
            bound = _size_bound(model)
            dangling_before = _dangling_calls(model)
            if sibling is not None and step.get("sibling_first"):
                # the same pass OBJECT is first applied to another model (same function identifiers, other bodies)
                try:
                    p(sibling)
                except Exception:  # noqa: BLE001
                    pass
                inc("pass_object_applied_to_sibling_model_first")
            boundary.armed = step.get("fault")
            fired0 = boundary.fired
            rounds = 0
            result = None
            raised = None
            try:
                if step.get("via_result"):
                    inc("called_with_pass_result")
                    result = p(ir.passes.PassResult(model, modified=bool(si % 2)))
                else:
                    result = p(model)
                rounds = 1
            except Exception as e:  # noqa: BLE001
                raised = e
            finally:
                boundary.armed = None
            fault_fired = boundary.fired > fired0
            if boundary.stubbed:
                inc("onnx_shape_inference_stubbed_for_graph_reference_attributes", boundary.stubbed)
                boundary.stubbed = 0
            if fault_fired:
                inc("boundary_fault_fired_" + step["fault"]["exc"])
                nontrivial = True
            out = "raise:" + type(raised).__name__ if raised is not None else f"ok:{bool(result.modified)}"
            trace.append((name, mode, step["opt"], out))
            inc("pass_" + name)
            inc("mode_" + mode)
            lazy_fail = case["params"].get("lazy_failing_init")
            # ---- C01 invariants after every pass (on the input model and on a functional result)
            targets = [model] + ([result.model] if (result is not None and result.model is not model) else [])
            for t in targets:
                w2 = World()
                w2.reg(t)
                try:
                    inv = invariants.check(w2)
                except Exception as e:  # noqa: BLE001
                    inv = {"clause": "accessor-raised", "detail": f"{type(e).__name__}: {e}"}
                if inv is not None and viol is None:
                    viol = ("links-inconsistent-after-pass", f"step {si} {name}/{mode} ({out}): {inv['clause']}: {inv['detail']}", f"links-inconsistent-after-pass|{name}|{inv['clause']}")
            snap_after = snapshot.snapshot(w, tensors=False)
            # ---- use-def links: an output that had a definition is not left dangling
            if viol is None:
                for g in _all_graphs(model):
                    for v in g.outputs:
                        if v is not None and id(v) in defined_before and not _has_definition(v) and viol is None:
                            viol = ("output-lost-its-definition", f"step {si} {name}/{mode} ({out}): output {v.name!r} of graph {g.name!r} was produced by a node (or was an input/initializer) before the pass and is defined nowhere afterwards", f"output-lost-its-definition|{name}")
            # ---- no damage: a pass does not delete a function that is still called
            if viol is None:
                for t in targets:
                    new_dangling = _dangling_calls(t) - dangling_before
                    if new_dangling:
                        viol = ("pass-removed-called-function", f"step {si} {name}/{mode} ({out}): {sorted(map(str, new_dangling))[:2]} is still called but no longer defined in the model", f"pass-removed-called-function|{name}")
                        break
            # ---- names needed for serialization: a pass never makes two values of one graph share a name
            if viol is None and not dups_before:
                for t in targets:
                    dups = _duplicate_value_names(t)
                    if dups:
                        key_ = f"pass-created-duplicate-value-names|{name}"
                        # recorded finding: inside a composite step, an earlier member (IdentityElimination with x and
                        # y = Identity(x) both graph outputs) leaves ONE value listed twice among the outputs, and
                        # CommonSubexpressionElimination then rewrites each listing separately (an Identity per listing,
                        # all carrying the output's name).  Recognised by: the duplicated name is the name of graph outputs
                        # listed at least twice, and the step is a composition that contains CSE.
                        members_ = [name] + [o_[0] for o_ in (step.get("others") or [])]
                        for g_ in _all_graphs(t):
                            if g_.name == dups[0][0] and sum(1 for o_ in g_.outputs if o_.name == dups[0][1]) >= 2 and "CSE" in members_ and len(members_) > 1:
                                key_ = "pass-created-duplicate-value-names|repeated-output-then-CSE"
                        if key_.endswith("|" + name) and "Inline" in members_ and "IdentityElimination" in members_ and len(members_) > 1:
                            # second recorded finding of the same family (see known_findings.json): IdentityElimination
                            # applied, inside one composition, to what InlinePass just produced
                            key_ = "pass-created-duplicate-value-names|identity-elimination-after-inline"
                        viol = ("pass-created-duplicate-value-names", f"step {si} {name}/{mode} ({out}): every value name was unique within its graph before the pass; afterwards graph {dups[0][0]!r} defines {dups[0][1]!r} twice (such a proto is refused on load)", key_)
                        break
            # ---- the infrastructure's own contract check (declared in-place / functional) never fires for built-in passes
            e_ = raised
            while e_ is not None and viol is None:
                if isinstance(e_, ir.passes.PassError) and e_.__cause__ is None and "is declared" in str(e_):
                    viol = ("identity-rule", f"step {si} {name}/{mode}: {str(e_)[:200]}", f"identity-rule|contract-error|{mode}")
                e_ = e_.__cause__
            if mode == "fmanager" and viol is None:
                if snap_after != snap_before:
                    d = snapshot.diff(snap_before, snap_after)
                    viol = ("functional-pass-altered-input", f"step {si} manager of functional passes ({name}, ...) changed its input: {str(d[:2])[:400]}", f"functional-pass-altered-input|fmanager|{name}")
            if raised is not None:
                inc("pass_raised")
                inc("pass_raised_" + name)
                if mode in ("functional", "fseq") and snap_after != snap_before and viol is None:
                    d = snapshot.diff(snap_before, snap_after)
                    viol = ("functional-pass-altered-input", f"step {si} functionalize({name}...) raised {type(raised).__name__} and its input changed: {str(d[:2])[:400]}", f"functional-pass-altered-input|{name}|raised")
                # analysis-only passes and a failing shape inference leave the model exactly unchanged, even on failure
                if (analysis_only or (name == "ShapeInference" and mode in ("single", "repeat"))) and snap_after != snap_before and viol is None:
                    d = snapshot.diff(snap_before, snap_after)
                    cause = "boundary-fault" if fault_fired else ("serialization-failure" if lazy_fail else "pass-failure")
                    viol = ("analysis-pass-changed-model-on-failure", f"step {si} {name} raised {type(raised).__name__} and the model changed: {str(d[:3])[:500]}", f"analysis-pass-changed-model-on-failure|{name}|{cause}|{d[0][1] if d else '?'}")
            else:
                # ---- identity rule
                if viol is None:
                    if p.in_place and result.model is not model:
                        viol = ("identity-rule", f"step {si} {name}/{mode}: in-place pass returned a different model object", "identity-rule")
                    if not p.in_place and result.model is model:
                        viol = ("identity-rule", f"step {si} {name}/{mode}: functional pass returned its input model object", "identity-rule")
                if mode == "fmanager":
                    if result.modified:
                        nontrivial = True
                    model = result.model if si % 2 else model
                    if viol is None:
                        continue
                elif mode in ("functional", "fseq"):
                    if snap_after != snap_before and viol is None:
                        d = snapshot.diff(snap_before, snap_after)
                        members_ = "+".join([name] + [o[0] for o in step.get("others", [])]) if mode == "fseq" else name
                        viol = ("functional-pass-altered-input", f"step {si} functionalize({members_}) changed its input: {str(d[:2])[:400]}", f"functional-pass-altered-input|{name}" + ("|fseq" if mode == "fseq" else ""))
                    if result.modified:
                        nontrivial = True
                    model = result.model if si % 2 else model  # sometimes continue on the copy
                    continue
                if result.modified:
                    inc("modified_true")
                    nontrivial = True
                proto_after = _proto_bytes(model)
                # ---- modified=False => serializes exactly as before
                if not result.modified:
                    inc("modified_false")
                    if proto_before is None:
                        inc("modified_false_unverifiable_not_serializable")
                    elif proto_after != proto_before and viol is None:
                        what = "no longer serializes" if proto_after is None else "serializes differently"
                        d = snapshot.diff(snap_before, snap_after)
                        viol = ("modified-false-but-changed", f"step {si} {name}/{mode} reported modified=False but the model {what}: {str(d[:2])[:400]}", f"modified-false-but-changed|{name}|{d[0][1] if d else 'proto-only'}")
                # ---- analysis-only passes leave the model exactly unchanged
                if (analysis_only or (name == "ShapeInference" and mode == "single" and fault_fired)) and snap_after != snap_before and viol is None:
                    d = snapshot.diff(snap_before, snap_after)
                    viol = ("analysis-pass-changed-model", f"step {si} {name} (analysis only{', boundary fault' if fault_fired else ''}) changed the model: {str(d[:3])[:500]}", f"analysis-pass-changed-model|{name}|{d[0][1] if d else '?'}")
                # ---- names needed for serialization are kept
                if proto_before is not None and proto_after is None and viol is None:
                    unnamed_in_use = any(v is not None and not v.name for n in model.graph.all_nodes() for v in n.inputs) or any(not v.name for v in model.graph.outputs)
                    if unnamed_in_use and case["params"].get("name_noise"):
                        # a value that never had a name (and was not needed) became needed through the rewrite
                        key = "no-longer-serializable|unnamed-value-became-used|model-with-missing-names"
                    else:
                        key = f"no-longer-serializable|{name}"
                    viol = ("no-longer-serializable", f"step {si} {name}/{mode}: the model serialized before the pass and does not afterwards", key)
                # ---- topological order is preserved
                if sorted_before and not is_sorted(model) and viol is None:
                    viol = ("order-destroyed", f"step {si} {name}/{mode}: graphs were topologically ordered before the pass and are not afterwards", f"order-destroyed|{name}")
                if sorted_before:
                    inc("sorted_before_pass")
                # ---- bounded convergence
                # (only single passes: a composition of opposing passes, e.g. AddInitializersToInputs +
                # RemoveInitializersFromInputs, oscillates by construction and the statement does not cover it)
                if mode == "repeat" and viol is None and not fault_fired:
                    modified = result.modified
                    while modified and rounds <= bound + 1:
                        try:
                            r2 = p(model)
                        except Exception:  # noqa: BLE001
                            inc("pass_raised_during_repeat")
                            break
                        rounds += 1
                        modified = r2.modified
                    else:
                        if modified:
                            others_ = "+".join(sorted({o[0] for o in step.get("others", [])}))
                            viol = ("does-not-converge", f"step {si} {name}{'+' + others_ if others_ else ''} ({mode}): still reports modified=True after {rounds} rounds (bound {bound})", f"does-not-converge|{name}" + (f"|with:{others_}" if others_ else ""))
                    if not modified and viol is None:
                        inc("reach_fixpoint")
                        if rounds >= 3:
                            inc("reach_fixpoint_after_3_or_more_rounds")
                        pb = _proto_bytes(model)
                        try:
                            r3 = p(model)
                            if r3.modified:
                                viol = ("fixpoint-not-stable", f"step {si} {name}: reported modified=False, then modified=True on the next application", f"fixpoint-not-stable|{name}")
                            elif pb is not None and _proto_bytes(model) != pb:
                                viol = ("fixpoint-not-stable", f"step {si} {name}: a further application after modified=False changed the model", f"fixpoint-not-stable|{name}|changed")
                        except Exception:  # noqa: BLE001
                            inc("pass_raised_during_repeat")
            if viol is not None:
                c = copy.deepcopy(case)
                c["schedule"] = case["schedule"][: si + 1]
                res["case"] = c
                res["violation"] = {"clause": viol[0], "detail": viol[1], "key": viol[2]}
                break
    res["steps"] = len(trace)
    res["event_digest"] = digest(trace)
    if res["violation"] is None and nontrivial:
        res["distinct"] = [digest((case["model_seed"], case["params"], trace))]
    res["sample"] = {"params": {k: v for k, v in case["params"].items() if k in ("n_nodes", "n_functions", "depth", "typed", "unsorted", "name_noise", "lazy_failing_init")}, "schedule": [f"{t[0]}/{t[1]}:{t[3]}" for t in trace]}
    return res


def shrink_candidates(case: dict, violation: dict):
    sch = case["schedule"]
    n = len(sch)
    for i in range(n - 1):
        c = copy.deepcopy(case)
        c["schedule"] = sch[:i] + sch[i + 1 :]
        yield c
    last = sch[-1]
    if last.get("mode") not in ("single",) and last.get("mode") != "functional":
        c = copy.deepcopy(case)
        c["schedule"][-1]["mode"] = "single"
        yield c
    for key, vals in (("n_nodes", [1, 2, 4]), ("n_functions", [0]), ("depth", [0, 1]), ("n_inits", [0, 1, 2]), ("n_inputs", [0, 1]), ("n_outputs", [1]), ("metadata", [False]), ("unsorted", [False]), ("name_noise", [0.0]), ("big_init", [False]), ("dup_inits", [False]), ("lazy_failing_init", [False]), ("unused_function", [False]), ("typed", [False]), ("annot_noise", [0.0])):
        for val in vals:
            cur = case["params"].get(key)
            if cur != val and (isinstance(val, bool) or val < cur):
                c = copy.deepcopy(case)
                c["params"][key] = val
                yield c


def finding_key(case: dict, violation: dict) -> str:
    return violation.get("key") or violation.get("clause")


def check_reach(agg: dict, tier: str):
    st = agg["stats"]
    need = ["pass_" + k for k in PASSES] + ["mode_" + m for m in set(MODES)] + ["modified_true", "modified_false", "reach_fixpoint", "boundary_fault_fired_ValidationError", "boundary_fault_fired_RuntimeError", "boundary_fault_fired_MemoryError", "sorted_before_pass"]
    missing = [k for k in need if not st.get(k)]
    return missing if agg["runs"] > 300 else []
