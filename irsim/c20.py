"""C20 — journaling observes without interfering and always restores the classes.

One op list H.  World W1 executes H plain; W2 (fresh, same ops => identical
objects by registry index) executes H while the scheduler enters, exits and
throws out of journals (nesting <= 3) at arbitrary positions; W3 executes H
plain again afterwards.  See DESIGN.md section 6 (C20).
"""

from __future__ import annotations

import copy
import contextlib
import gc
import io
import logging
import sys
import warnings

import onnx_ir as ir
from onnx_ir import _core, _graph_containers
from onnx_ir import journaling as _j
from onnx_ir.journaling import _journaling as _jmod

from irsim import ops, snapshot
from irsim.world import World
from simcore.prng import Streams, digest

logging.getLogger("onnx_ir").setLevel(logging.ERROR)

PROPERTY = "C20"
LEVEL = "exploration"
ops.AVOID_NODE_OUTPUTS_ON_GRAPH_INPUTS = True
TIERS = {
    "quick": {"max_runs": 1200, "optimize_runs": 240, "wall": 420, "optimize_wall": 180, "chunk": 40, "shrink_budget": 300, "shrink_wall": 60},
    "thorough": {"wall": 600, "optimize_wall": 90, "chunk": 100, "shrink_budget": 600, "shrink_wall": 240},
}
RULE = (
    "each run = one seeded Engine A history (bootstrap + 15-50 ops of the C01 alphabet, ~30% rejected) executed three times: plain, inside "
    "journals whose enter / exit / exception-exit events (nesting depth <= 3) are inserted by the seeded scheduler at arbitrary positions, and "
    "plain again; distinct = digest of (history, journal event plan); non-trivial = at least one journal was active during at least 5 ops and recorded entries"
)
ASSUMPTIONS = [
    "which operations are instrumented is taken from the library's own table (journaling._wrappers.get_original_methods); the entry operation names are the documented ones",
    "an observer installed by the harness underneath the journal wrappers logs every call of those operations with its completion status; the journal must hold one entry per completed call (entries for calls that raised are tolerated)",
    "the journal clock (time.time in _journaling) is replaced by a step counter",
    "properly nested journals only (the statement's scope)",
]
REAL_STUB = {"real": ["onnx_ir.journaling (Journal, wrappers)", "all of onnx_ir core under the wrappers"], "stub": ["journal clock"], "harness_extension_points": ["call observer under the journal wrappers"]}

# key in the library's table -> (class, attribute, entry operation name, how to find the entry's target from self)
INSTRUMENTED = {
    "Node.__init__": (_core.Node, "__init__", "init", None),
    "Node.name.fset": (_core.Node, "name", "set_name", None),
    "Node.domain.fset": (_core.Node, "domain", "set_domain", None),
    "Node.version.fset": (_core.Node, "version", "set_version", None),
    "Node.op_type.fset": (_core.Node, "op_type", "set_op_type", None),
    "Node.overload.fset": (_core.Node, "overload", "set_overload", None),
    "Node.resize_inputs": (_core.Node, "resize_inputs", "resize_inputs", None),
    "Node.prepend": (_core.Node, "prepend", "prepend", None),
    "Node.append": (_core.Node, "append", "append", None),
    "Node.resize_outputs": (_core.Node, "resize_outputs", "resize_outputs", None),
    "Node.graph.fset": (_core.Node, "graph", "set_graph", None),
    "Value.__init__": (_core.Value, "__init__", "init", None),
    "Value.name.fset": (_core.Value, "name", "set_name", None),
    "Value.type.fset": (_core.Value, "type", "set_type", None),
    "Value.shape.fset": (_core.Value, "shape", "set_shape", None),
    "Value.const_value.fset": (_core.Value, "const_value", "set_const_value", None),
    "Value.replace_all_uses_with": (_core.Value, "replace_all_uses_with", "replace_all_uses_with", None),
    "Value.merge_shapes": (_core.Value, "merge_shapes", "merge_shapes", None),
    "Graph.__init__": (_core.Graph, "__init__", "init", None),
    "Graph.register_initializer": (_core.Graph, "register_initializer", "register_initializer", None),
    "Graph.append": (_core.Graph, "append", "append", None),
    "Graph.extend": (_core.Graph, "extend", "extend", None),
    "Graph.remove": (_core.Graph, "remove", "remove", None),
    "Graph.insert_after": (_core.Graph, "insert_after", "insert_after", None),
    "Graph.insert_before": (_core.Graph, "insert_before", "insert_before", None),
    "Graph.sort": (_core.Graph, "sort", "sort", None),
    "Model.__init__": (_core.Model, "__init__", "init", None),
    "Function.__init__": (_core.Function, "__init__", "init", None),
    "Function.name.fset": (_core.Function, "name", "set_name", None),
    "Function.domain.fset": (_core.Function, "domain", "set_domain", None),
    "Function.overload.fset": (_core.Function, "overload", "set_overload", None),
    "Attr.__init__": (_core.Attr, "__init__", "init", None),
    "TensorBase.__init__": (_core.TensorBase, "__init__", "init", None),
    "_GraphIO.append": (_graph_containers._GraphIO, "append", "append_io", "_graph"),
    "_GraphIO.extend": (_graph_containers._GraphIO, "extend", "extend_io", "_graph"),
    "_GraphIO.insert": (_graph_containers._GraphIO, "insert", "insert_io", "_graph"),
    "_GraphIO.pop": (_graph_containers._GraphIO, "pop", "pop_io", "_graph"),
    "_GraphIO.remove": (_graph_containers._GraphIO, "remove", "remove_io", "_graph"),
    "_GraphIO.clear": (_graph_containers._GraphIO, "clear", "clear_io", "_graph"),
    "_GraphIO.__setitem__": (_graph_containers._GraphIO, "__setitem__", "set_io", "_graph"),
    "GraphInitializers.__setitem__": (_graph_containers.GraphInitializers, "__setitem__", "set_initializer", "_graph"),
    "GraphInitializers.__delitem__": (_graph_containers.GraphInitializers, "__delitem__", "delete_initializer", "_graph"),
    "Attributes.__setitem__": (_graph_containers.Attributes, "__setitem__", "set_attribute", "_owner"),
}


def _pristine() -> dict:
    out = {}
    for key, (cls, attr, _op, _t) in INSTRUMENTED.items():
        a = cls.__dict__.get(attr)
        if isinstance(a, property):
            out[key] = ("prop", a.fget, a.fset)
        else:
            out[key] = ("func", a)
    return out


PRISTINE = _pristine()
PRISTINE_OBJECTS = {key: cls.__dict__.get(attr) for key, (cls, attr, _op, _t) in INSTRUMENTED.items()}


def _force_pristine() -> None:
    """After a reported violation: put the classes back so that later runs of this worker start clean."""
    for key, (cls, attr, _op, _t) in INSTRUMENTED.items():
        obj = PRISTINE_OBJECTS.get(key)
        if obj is not None and cls.__dict__.get(attr) is not obj:
            setattr(cls, attr, obj)
    _jmod._current_journal = None


def _compare_with(table: dict) -> str | None:
    now = _pristine()
    for key, val in table.items():
        cur = now.get(key)
        if cur is None or len(cur) != len(val) or any(a is not b for a, b in zip(cur[1:], val[1:])):
            return key
    return None


class _Clock:
    """The journal's clock, owned by the simulator: one tick per reading - and, as a fault, one step BACKWARDS (an
    NTP correction, a resumed VM) after a given number of readings."""

    def __init__(self, step_back_at: int | None = None) -> None:
        self.t = 1000.0
        self.reads = 0
        self.step_back_at = step_back_at
        self.stepped = False

    def time(self) -> float:
        self.reads += 1
        if self.step_back_at is not None and self.reads == self.step_back_at:
            self.t -= 500.0
            self.stepped = True
        self.t += 1.0
        return self.t


class Observer:
    """Logs every call of an instrumented operation with its completion status (installed under the journal)."""

    def __init__(self) -> None:
        self.log: list = []  # (operation, id(target), completed)
        self.installed: dict = {}

    def install(self) -> None:
        obs = self
        for key, (cls, attr, opname, target_attr) in INSTRUMENTED.items():
            kind = PRISTINE[key][0]
            orig = PRISTINE[key][2] if kind == "prop" else PRISTINE[key][1]

            def make(orig=orig, opname=opname, target_attr=target_attr):
                def wrapper(self, *a, **k):
                    tgt = getattr(self, target_attr) if target_attr else self
                    rec = [opname, id(tgt), False]
                    obs.log.append(rec)
                    r = orig(self, *a, **k)
                    rec[2] = True
                    return r

                wrapper.__wrapped__ = orig
                return wrapper

            w = make()
            if kind == "prop":
                setattr(cls, attr, property(PRISTINE[key][1], w))
            else:
                setattr(cls, attr, w)

    @staticmethod
    def uninstall() -> None:
        for key, (cls, attr, _op, _t) in INSTRUMENTED.items():
            p = PRISTINE[key]
            if p[0] == "prop":
                setattr(cls, attr, property(p[1], p[2]))
            else:
                setattr(cls, attr, p[1])


def gen_case(run_seed: int, tier: str, index: int = 0) -> dict:
    r = Streams(run_seed).rng("workload")
    n = r.choice([15, 25, 35, 50])
    op_list = ops.bootstrap_ops() + ops.gen_ops(r, n)
    # a stream of its own (the other draws of the run are unchanged): in a third of the runs one or two of the generated
    # new_value calls are given a small lazily loaded constant whose loader counts its runs (ops.small_tensor: c % 3 == 0
    # and (c // 7) % 23 == 12). Left to the uniform arguments that is one new_value in 69, and a journaled use of such a
    # value about one run in a thousand - too rare for a work-bounded quick batch to rely on.
    lz = Streams(run_seed).rng("lazy-constant-bias")
    if lz.random() < 0.34:
        nv = [k for k, op in enumerate(op_list) if op[0] == "new_value" and k >= len(op_list) - n]
        for k in lz.sample(nv, min(len(nv), lz.choice([1, 2]))):
            op_list[k][3] = 21 * (4 + 23 * lz.randrange(1 << 12)) + lz.choice([0, 3, 6])
    plan: dict = {}
    depth = 0
    for i in range(len(op_list) + 1):
        evs = []
        for _ in range(r.choice([0, 0, 0, 1, 1, 2])):
            x = r.random()
            if depth < 3 and (depth == 0 or x < 0.45):
                # sometimes the journal that is already active is entered again (same object)
                evs.append("reenter" if (depth > 0 and r.random() < 0.15) else "enter")
                depth += 1
            elif depth > 0:
                evs.append("exit" if x < 0.8 else "raise")
                depth -= 1
        if evs:
            plan[str(i)] = evs
    # how the journal is consumed: 0 nobody reads it, 1 a hook reads every public attribute of each new entry
    # (while the object is alive), 2 hook + the entries are read and displayed after the blocks
    consumer = r.choice([0, 1, 1, 2, 3])
    # consumer 3: the hook also raises once, on the k-th entry it sees (a fault in the user's observer)
    kr = Streams(run_seed).rng("interpreter-knobs")
    # the interpreter treats warnings as errors (python -W error, the usual test-suite setting) in part of the runs;
    # rarely the first journal also records a bulk of several thousand cheap operations before the history proper
    knobs = {"warnings_error": kr.random() < 0.25, "bulk": kr.choice([3000, 10000, 12000]) if kr.random() < 0.012 else 0}
    # sys.tracebacklimit as command-line tools set it to hide tracebacks (it also limits traceback.extract_stack)
    tr = Streams(run_seed).rng("tracebacklimit")
    knobs["tracebacklimit"] = tr.choice([0, 1, 2, 3, 5]) if tr.random() < 0.2 else None
    cr = Streams(run_seed).rng("clock-fault")
    knobs["clock_step_back_at"] = cr.choice([2, 5, 10, 20, 40]) if cr.random() < 0.25 else None
    return {"property": PROPERTY, "run_seed": run_seed, "ops": op_list, "plan": plan, "consumer": consumer, "hook_raises_at": r.choice([0, 1, 3, 8, 20]), **knobs}


def _read_entry(e) -> None:
    """Read an entry the way a user's hook or filter does; keeps nothing."""
    o = e.obj
    r = e.ref() if e.ref is not None else None
    _ = (e.timestamp, e.operation, e.class_, e.class_name, e.object_id, e.details, len(e.stack_trace or ()), o is r)
    del o, r


def _canon_result(w: World, r):
    if r[0] == "raise":
        return ("raise", r[1])
    v = r[1]
    try:
        return ("ok", repr(v) if not isinstance(v, ir.passes.PassResult) else "PassResult")
    except Exception:  # noqa: BLE001
        return ("ok", "?")


def run_plain(op_list: list) -> list:
    w = World()
    out = []
    for op in op_list:
        r = ops.apply_op(w, op)
        res = _canon_result(w, r)
        del r
        out.append((res, digest(sorted(snapshot.snapshot(w, tensors=False).items()))))
    return out


class _HookFault(Exception):
    pass


def run_journaled(op_list: list, plan: dict, stats: dict, consumer: int = 0, hook_raises_at: int = 0, bulk: int = 0, clock_step_back_at: int | None = None):
    """Returns (outcomes, violation, journals) — holds no reference to IR objects on return."""

    def inc(k, n=1):
        stats[k] = stats.get(k, 0) + n

    viol = None
    obs = Observer()
    clock = _Clock(clock_step_back_at)
    saved_time = _jmod.time
    _jmod.time = clock
    obs.install()
    observer_table = _pristine()  # what the classes look like before any journal is entered
    journals: list = []
    stack: list = []
    out = []
    hook_state = {"seen": 0, "fired_at_op": None, "op": -1}
    r_pick = [0]

    def faulty_hook(e):
        _read_entry(e)
        hook_state["seen"] += 1
        if hook_state["fired_at_op"] is None and hook_state["seen"] > hook_raises_at:
            hook_state["fired_at_op"] = hook_state["op"]
            raise _HookFault("injected failure in a journal hook")

    w = World()
    try:
        for i in range(len(op_list) + 1):
            for ev in plan.get(str(i), []):
                if ev == "reenter" and any(x is not None for x in stack):
                    live_ = [x for x in stack if x is not None]
                    jr = live_[r_pick[0] % len(live_)]
                    r_pick[0] += 1
                    try:
                        jr.__enter__()
                    except RuntimeError:
                        inc("journal_reenter_refused")  # a clear refusal is fine - it must simply change nothing
                        stack.append(None)
                    else:
                        inc("journal_reenter_accepted")
                        stack.append(jr)
                elif ev in ("enter", "reenter"):
                    if len(stack) < 3:
                        jr = _j.Journal()
                        if consumer == 3:
                            jr.add_hook(faulty_hook)
                            inc("journal_hooks")
                        elif consumer:
                            jr.add_hook(_read_entry)
                            inc("journal_hooks")
                        jr.__enter__()
                        stack.append(jr)
                        journals.append(jr)
                        inc("journal_enter")
                        if bulk and consumer != 3:
                            scratch_value = ir.Value(name="bulk")
                            for k_ in range(bulk):
                                scratch_value.name = "bulk_a" if k_ % 2 else "bulk_b"
                            del scratch_value
                            inc("bulk_journals")
                            inc("bulk_entries", bulk)
                            bulk = 0
                        inc(f"journal_depth_{len(stack)}")
                elif stack:
                    jr = stack.pop()
                    if jr is None:
                        continue  # the matching enter was refused
                    swallowed = False
                    try:
                        if ev == "exit":
                            jr.__exit__(None, None, None)
                            inc("journal_exit_normal")
                        else:
                            e = RuntimeError("thrown inside the journal block")
                            swallowed = jr.__exit__(RuntimeError, e, None)
                            inc("journal_exit_by_exception")
                    except Exception:  # noqa: BLE001
                        # leaving may raise (a warning turned into an error, say); the classes must be back all the same
                        inc("journal_exit_raised")
                    if ev != "exit":
                        if swallowed and viol is None:
                            # a `with` statement re-raises only when __exit__ returns a false value: outside a journal the
                            # exception would have propagated, inside it now silently would not
                            viol = {"clause": "exception-swallowed-by-journal", "detail": f"before op {i}: Journal.__exit__ returned {type(swallowed).__name__} (true) for an exception thrown inside its block at nesting depth {len([x for x in stack if x is not None]) + 1}: the `with` statement would suppress it", "key": "exception-swallowed-by-journal"}
                    live = [x for x in stack if x is not None]
                    if not live:
                        bad = _compare_with(observer_table)
                        if bad is not None and viol is None:
                            viol = {"clause": "classes-not-restored", "detail": f"after leaving the outermost journal before op {i}, {bad} is not what it was before entering", "key": "classes-not-restored"}
                        if _j.get_current_journal() is not None and viol is None:
                            viol = {"clause": "current-journal-not-restored", "detail": "get_current_journal() is not None after the outermost exit", "key": "current-journal-not-restored"}
                    elif _j.get_current_journal() is not live[-1] and viol is None:
                        viol = {"clause": "current-journal-not-restored", "detail": "after leaving a nested journal the enclosing one is not current", "key": "current-journal-not-restored"}
            if i == len(op_list):
                break
            op = op_list[i]
            active = list({id(x): x for x in stack if x is not None}.values())
            before_counts = [len(jr.entries) for jr in active]
            before_ids = [[id(e) for e in jr.entries] for jr in active]
            log_start = len(obs.log)
            hook_state["op"] = i
            r = ops.apply_op(w, op)
            res = _canon_result(w, r)
            del r
            if hook_state["fired_at_op"] is not None:
                # an operation (possibly a constructor) was cut short by the injected observer failure: half-built
                # objects may be reachable, and the state is no longer compared with the plain run anyway
                out.append((res, None))
            else:
                out.append((res, digest(sorted(snapshot.snapshot(w, tensors=False).items()))))
            calls = obs.log[log_start:]
            if stack:
                inc("ops_inside_journal")
            if hook_state["fired_at_op"] == i:
                # the operation during which the observer failed was cut short by that failure: its own
                # entries / calls are not compared (everything before and after is)
                inc("hook_fault_fired")
                continue
            for jr, n0 in zip(active, before_counts):
                new = jr.entries[n0:]
                inc("entries_recorded", len(new))
                got: dict = {}
                for e in new:
                    k = (e.operation, e.object_id)
                    got[k] = got.get(k, 0) + 1
                done: dict = {}
                total: dict = {}
                for opname, tid, completed in calls:
                    k = (opname, tid)
                    total[k] = total.get(k, 0) + 1
                    if completed:
                        done[k] = done.get(k, 0) + 1
                for k in set(got) | set(total):
                    g, d_, t_ = got.get(k, 0), done.get(k, 0), total.get(k, 0)
                    if not (d_ <= g <= t_) and viol is None:
                        viol = {"clause": "entries-vs-calls", "detail": f"op {i} {op[0]}: operation {k[0]!r} was completed {d_} time(s) (called {t_}) on one object but the journal holds {g} entrie(s) for it", "key": f"entries-vs-calls|{k[0]}"}
                ts = [e.timestamp for e in jr.entries]
                if not clock.stepped and any(b < a for a, b in zip(ts, ts[1:])) and viol is None:
                    viol = {"clause": "entries-out-of-order", "detail": "journal timestamps decrease", "key": "entries-out-of-order"}
                # program order: what was recorded stays where it is, new entries come after it (whatever the clock says)
                prev = before_ids[[id(x) for x in active].index(id(jr))]
                if [id(e) for e in jr.entries[: len(prev)]] != prev and viol is None:
                    viol = {"clause": "entries-out-of-order", "detail": f"op {i} {op[0]}: the entries recorded before this operation are no longer the first {len(prev)} entries of the journal, in their order (the journal clock stepped back: {clock.stepped})", "key": "entries-out-of-order|reordered"}
    finally:
        while stack:
            jr = stack.pop()
            if jr is None:
                continue
            try:
                jr.__exit__(None, None, None)
            except Exception:  # noqa: BLE001
                pass
        bad = _compare_with(observer_table)
        if bad is not None and viol is None:
            viol = {"clause": "classes-not-restored", "detail": f"after leaving every journal, {bad} is not what it was before entering", "key": "classes-not-restored"}
        obs.uninstall()
        _jmod.time = saved_time
    del w
    stats["_hook_fault_op"] = hook_state["fired_at_op"]
    return out, viol, journals


def run_case(case: dict) -> dict:
    stats: dict = {}
    res = {"violation": None, "error": None, "stats": stats, "steps": 0, "distinct": [], "states": [], "case": case}
    op_list, plan = case["ops"], case["plan"]
    bad = _compare_with(PRISTINE)
    if bad is not None:
        res["error"] = f"classes are not pristine at the start of the run ({bad}): leaked from a previous run"
        return res
    consumer = case.get("consumer", 0)
    had_limit = hasattr(sys, "tracebacklimit")
    old_limit = getattr(sys, "tracebacklimit", None)
    try:
        if case.get("tracebacklimit") is not None:
            sys.tracebacklimit = case["tracebacklimit"]
            stats["cfg_tracebacklimit_set"] = 1
        with warnings.catch_warnings():
            if case.get("warnings_error"):
                warnings.simplefilter("error")
                stats["cfg_warnings_as_errors"] = 1
            ev0 = ops.LAZY_EVALUATIONS[0]
            plain = run_plain(op_list)
            ev_plain = ops.LAZY_EVALUATIONS[0] - ev0
            ev0 = ops.LAZY_EVALUATIONS[0]
            journaled, viol, journals = run_journaled(op_list, plan, stats, consumer, case.get("hook_raises_at", 0), case.get("bulk", 0), case.get("clock_step_back_at"))
            ev_journaled = ops.LAZY_EVALUATIONS[0] - ev0
            if case.get("clock_step_back_at"):
                stats["cfg_clock_steps_back"] = 1
            stats["lazy_constants_evaluated"] = ev_plain
            if viol is None and ev_journaled != ev_plain and stats.get("_hook_fault_op") is None:
                viol = {"clause": "lazy-tensor-evaluated-under-journal", "detail": f"the loaders of lazily loaded constants ran {ev_journaled} time(s) in the journaled run and {ev_plain} time(s) in the plain run of the same history", "key": "lazy-tensor-evaluated-under-journal"}
    finally:
        if had_limit:
            sys.tracebacklimit = old_limit
        elif hasattr(sys, "tracebacklimit"):
            del sys.tracebacklimit
    hook_op = stats.pop("_hook_fault_op", None)
    if consumer == 2 and viol is None:
        sink = io.StringIO()
        try:
            with contextlib.redirect_stdout(sink):
                for jr in journals:
                    for e in jr.entries:
                        _read_entry(e)
                    jr.display()
                    for e in jr.entries[:3]:
                        e.display()
            stats["journal_displayed"] = stats.get("journal_displayed", 0) + len(journals)
        except Exception as e:  # noqa: BLE001
            viol = {"clause": "journal-unreadable", "detail": f"reading/displaying the recorded entries raised {type(e).__name__}: {e}", "key": f"journal-unreadable|{type(e).__name__}"}
    if viol is None:
        for i, (a, b) in enumerate(zip(plain, journaled)):
            if hook_op is not None and i >= hook_op:
                break  # the injected observer failure aborted an operation: the two histories legitimately differ from here on
            if a[0] != b[0]:
                viol = {"clause": "outcome-differs-under-journal", "detail": f"op {i} {op_list[i][0]}: plain run {a[0]} vs journaled run {b[0]}", "key": f"outcome-differs-under-journal|{op_list[i][0]}"}
                break
            if a[1] != b[1]:
                viol = {"clause": "state-differs-under-journal", "detail": f"after op {i} {op_list[i][0]} the IR state differs between the plain and the journaled run", "key": f"state-differs-under-journal|{op_list[i][0]}"}
                break
    if viol is None:
        bad = _compare_with(PRISTINE)
        if bad is not None:
            viol = {"clause": "classes-not-restored", "detail": f"{bad} differs from the pristine attribute after the run", "key": "classes-not-restored"}
    if viol is None:
        with warnings.catch_warnings():
            if case.get("warnings_error"):
                warnings.simplefilter("error")
            again = run_plain(op_list)
        if again != plain:
            viol = {"clause": "behaviour-changed-after-journal", "detail": "a plain replay after journaling differs from the first plain run", "key": "behaviour-changed-after-journal"}
    if viol is None:
        gc.collect()
        alive = 0
        what = None
        n_entries = 0
        for jr in journals:
            for e in jr.entries:
                n_entries += 1
                if e.ref is not None and e.ref() is not None and isinstance(e.ref(), (_core.Node, _core.Value, _core.Graph, _core.Function, _core.Model)):
                    alive += 1
                    what = e.class_name
        stats["weakrefs_checked"] = stats.get("weakrefs_checked", 0) + n_entries
        if alive:
            viol = {"clause": "entries-keep-objects-alive", "detail": f"{alive} journal entries still reach their IR object ({what}) after the world was dropped and collected", "key": "entries-keep-objects-alive"}
    res["steps"] = len(op_list)
    res["event_digest"] = digest((journaled, sorted(plan.items())))
    if viol is not None:
        res["violation"] = viol
        _force_pristine()
        return res
    if stats.get("ops_inside_journal", 0) >= 5 and stats.get("entries_recorded", 0) > 0:
        res["distinct"] = [digest((op_list, sorted(plan.items())))]
    res["sample"] = {"ops": [o[0] for o in op_list][:60], "plan": plan}
    return res


def shrink_candidates(case: dict, violation: dict):
    op_list = case["ops"]
    n = len(op_list)
    for width in (16, 8, 4, 2, 1):
        for lo in range(0, n, width):
            hi = min(n, lo + width)
            if hi - lo >= n:
                continue
            c = copy.deepcopy(case)
            c["ops"] = op_list[:lo] + op_list[hi:]
            # shift the plan
            newplan: dict = {}
            for k, evs in case["plan"].items():
                i = int(k)
                j = i if i <= lo else (lo if i < hi else i - (hi - lo))
                newplan.setdefault(str(j), [])
                newplan[str(j)] = newplan[str(j)] + evs
            c["plan"] = newplan
            yield c
    for k in list(case["plan"]):
        c = copy.deepcopy(case)
        del c["plan"][k]
        yield c
    if case.get("consumer", 0) > 0:
        c = copy.deepcopy(case)
        c["consumer"] = case["consumer"] - 1
        yield c


def finding_key(case: dict, violation: dict) -> str:
    return violation.get("key") or violation.get("clause")


def check_reach(agg: dict, tier: str):
    st = agg["stats"]
    need = ["journal_enter", "journal_exit_normal", "journal_exit_by_exception", "journal_depth_2", "journal_depth_3", "ops_inside_journal", "entries_recorded", "weakrefs_checked", "journal_hooks", "journal_displayed"]
    missing = [k for k in need if not st.get(k)]
    return missing if agg["runs"] > 200 else []
