"""Simulated ``threading`` / ``concurrent.futures`` primitives on top of Scheduler.

Written from the library documentation; deliberately *weaker* than CPython where
the docs allow it (barging locks, optional spurious wake-ups).  These are the
stubs reported in every evidence file.
"""

from __future__ import annotations

import collections
import concurrent.futures as _real_cf
import os as _os
import threading as _real_threading
import types

from iosim.sched import HarnessError, Scheduler, SimAbort

CancelledError = _real_cf.CancelledError


class SimLock:
    """Non-reentrant (or reentrant) lock; the scheduler decides who wins."""

    _reentrant = False

    def __init__(self, sched: Scheduler, kind: str = "lock") -> None:
        self._sched = sched
        self._owner = None
        self._count = 0
        self._id = sched_new_id(sched, kind)
        self._kind = kind

    def acquire(self, blocking: bool = True, timeout: float = -1) -> bool:
        s = self._sched
        if s.aborting or not s.active:
            return self._acquire_passive()
        me = s.me()
        s.yield_point(f"{self._kind}.acquire")
        if self._reentrant and self._owner is me:
            self._count += 1
            return True
        if self._owner is not None:
            if not blocking:
                return False
            if self._owner is me:
                # a non-reentrant lock re-acquired by its owner never succeeds
                s.block(lambda: False, f"{self._kind}.self-deadlock")
            s.stats_inc("lock_contended")
            while self._owner is not None:
                s.block(lambda: self._owner is None, f"{self._kind}.wait")
        self._owner = me
        self._count = 1
        s.log("acq", self._id, me.idx)
        return True

    def _acquire_passive(self) -> bool:
        # abort mode / outside a simulation: never block
        self._count += 1
        return True

    def release(self) -> None:
        s = self._sched
        if s.aborting or not s.active:
            self._count = max(0, self._count - 1)
            if self._count == 0:
                self._owner = None
            return
        me = s.me()
        if self._owner is None:
            raise RuntimeError("release unlocked lock")
        if self._reentrant and self._owner is not me:
            raise RuntimeError("cannot release un-acquired lock")
        self._count -= 1
        if self._count == 0:
            self._owner = None
            s.log("rel", self._id, me.idx)
            s.yield_point(f"{self._kind}.release")

    def locked(self) -> bool:
        return self._owner is not None

    def _is_owned(self) -> bool:
        return self._owner is self._sched.me()

    def __enter__(self):
        self.acquire()
        return self

    def __exit__(self, *exc) -> None:
        self.release()


class SimRLock(SimLock):
    _reentrant = True


def sched_new_id(sched: Scheduler, kind: str) -> str:
    n = getattr(sched, "_ids", None)
    if n is None:
        n = sched._ids = collections.Counter()  # type: ignore[attr-defined]
    n[kind] += 1
    return f"{kind}{n[kind]}"


class SimCondition:
    def __init__(self, sched: Scheduler, lock=None) -> None:
        self._sched = sched
        self._lock = lock if lock is not None else SimRLock(sched, "condlock")
        self._waiters: collections.deque = collections.deque()
        self._id = sched_new_id(sched, "cond")
        self.acquire = self._lock.acquire
        self.release = self._lock.release

    def __enter__(self):
        self._lock.acquire()
        return self

    def __exit__(self, *exc) -> None:
        self._lock.release()

    def wait(self, timeout=None) -> bool:
        s = self._sched
        if s.aborting:
            raise SimAbort()
        me = s.me()
        if self._lock._owner is not me:
            raise RuntimeError("cannot wait on un-acquired lock")
        s.stats_inc("cond_wait")
        # spurious wake-up (legal per the threading docs; wait_for must tolerate it)
        if s.spurious_rate and s.rng_faults.random() < s.spurious_rate:
            s.stats_inc("spurious_wakeup")
            saved = self._lock._count
            self._lock._count = 0
            self._lock._owner = None
            s.log("cwait-spurious", self._id, me.idx)
            s.yield_point("cond.spurious")
            while self._lock._owner is not None:
                s.block(lambda: self._lock._owner is None, "cond.reacquire")
            self._lock._owner = me
            self._lock._count = saved
            return True
        token = [False]
        self._waiters.append(token)
        saved = self._lock._count
        self._lock._count = 0
        self._lock._owner = None
        s.log("cwait", self._id, me.idx)
        try:
            s.block(lambda: token[0], "cond.wait")
        finally:
            if not token[0]:
                try:
                    self._waiters.remove(token)
                except ValueError:
                    pass
        # re-acquire the lock, contending with everybody else
        while self._lock._owner is not None:
            s.block(lambda: self._lock._owner is None, "cond.reacquire")
        self._lock._owner = me
        self._lock._count = saved
        s.log("cwake", self._id, me.idx)
        return True

    def wait_for(self, predicate, timeout=None):
        result = predicate()
        while not result:
            self.wait()
            result = predicate()
        return result

    def notify(self, n: int = 1) -> None:
        s = self._sched
        if s.aborting or not s.active:
            return
        me = s.me()
        if self._lock._owner is not me:
            raise RuntimeError("cannot notify on un-acquired lock")
        woken = 0
        while self._waiters and woken < n:
            token = self._waiters.popleft()
            token[0] = True
            woken += 1
        s.log("notify", self._id, me.idx, woken)
        if woken:
            s.stats_inc("cond_woken", woken)

    def notify_all(self) -> None:
        self.notify(len(self._waiters) if self._waiters else 0)

    notifyAll = notify_all


_PENDING, _RUNNING, _CANCELLED, _FINISHED = "PENDING", "RUNNING", "CANCELLED", "FINISHED"


class SimFuture:
    def __init__(self, sched: Scheduler) -> None:
        self._sched = sched
        self._state = _PENDING
        self._result = None
        self._exception: BaseException | None = None
        self._callbacks: list = []
        self._seq = -1  # completion order
        self._id = sched_new_id(sched, "fut")

    # -- executor side
    def set_running_or_notify_cancel(self) -> bool:
        if self._state == _CANCELLED:
            return False
        self._state = _RUNNING
        return True

    def _complete(self) -> None:
        s = self._sched
        c = getattr(s, "_completion_seq", 0)
        self._seq = c
        s._completion_seq = c + 1  # type: ignore[attr-defined]
        for cb in self._callbacks:
            try:
                cb(self)
            except Exception:  # noqa: BLE001
                pass

    def set_result(self, result) -> None:
        self._result = result
        self._state = _FINISHED
        self._complete()

    def set_exception(self, exc: BaseException) -> None:
        self._exception = exc
        self._state = _FINISHED
        self._complete()

    # -- client side
    def cancel(self) -> bool:
        if self._state in (_RUNNING, _FINISHED):
            return False
        if self._state == _CANCELLED:
            return True
        self._state = _CANCELLED
        self._complete()
        return True

    def cancelled(self) -> bool:
        return self._state == _CANCELLED

    def running(self) -> bool:
        return self._state == _RUNNING

    def done(self) -> bool:
        return self._state in (_CANCELLED, _FINISHED)

    def add_done_callback(self, fn) -> None:
        if self.done():
            fn(self)
        else:
            self._callbacks.append(fn)

    def _wait_done(self, tag: str) -> None:
        s = self._sched
        if s.aborting:
            raise SimAbort()
        s.yield_point(tag)
        if not self.done():
            s.stats_inc("future_wait")
            s.block(self.done, tag + ".wait")

    def result(self, timeout=None):
        self._wait_done("future.result")
        if self._state == _CANCELLED:
            raise CancelledError()
        if self._exception is not None:
            try:
                raise self._exception
            finally:
                self = None  # break cycle like CPython  # noqa: F841
        return self._result

    def exception(self, timeout=None):
        self._wait_done("future.exception")
        if self._state == _CANCELLED:
            raise CancelledError()
        return self._exception


class SimExecutor:
    def __init__(self, sched: Scheduler, max_workers=None, thread_name_prefix="", initializer=None, initargs=()):
        if max_workers is None:
            max_workers = min(32, (_os.cpu_count() or 1) + 4)
        if max_workers <= 0:
            raise ValueError("max_workers must be greater than 0")
        self._sched = sched
        self._max_workers = max_workers
        self._queue: collections.deque = collections.deque()
        self._workers: list = []
        self._idle = 0
        self._shutdown = False
        self._id = sched_new_id(sched, "pool")
        sched.executors.append(self)

    def submit(self, fn, /, *args, **kwargs) -> SimFuture:
        s = self._sched
        if s.aborting:
            raise SimAbort()
        s.yield_point("pool.submit")
        if self._shutdown:
            raise RuntimeError("cannot schedule new futures after shutdown")
        f = SimFuture(s)
        self._queue.append((f, fn, args, kwargs))
        s.log("submit", self._id, s.me().idx, f._id)
        s.stats_inc("submit")
        # mirror CPython's _adjust_thread_count
        if self._idle > 0:
            self._idle -= 1
        elif len(self._workers) < self._max_workers:
            idx = len(self._workers)
            t = s.spawn(self._worker, f"{self._id}-w{idx}", role="worker")
            self._workers.append(t)
        return f

    def _worker(self) -> None:
        s = self._sched
        me = s.me()
        while True:
            if not self._queue:
                if self._shutdown:
                    return
                self._idle += 1
                s.idle_workers.add(me.idx)
                try:
                    s.block(lambda: bool(self._queue) or self._shutdown, "pool.idle")
                finally:
                    s.idle_workers.discard(me.idx)
                continue
            f, fn, args, kwargs = self._queue.popleft()
            if not f.set_running_or_notify_cancel():
                continue
            s.log("task-start", f._id, me.idx)
            s.yield_point("task.start")
            try:
                result = fn(*args, **kwargs)
            except SimAbort:
                f.set_exception(SimAbort())
                raise
            except BaseException as exc:  # noqa: BLE001 - same as CPython's _WorkItem.run
                s.log("task-raise", f._id, me.idx, type(exc).__name__)
                f.set_exception(exc)
            else:
                s.log("task-done", f._id, me.idx)
                f.set_result(result)
            del f, fn, args, kwargs
            s.yield_point("task.end")

    def shutdown(self, wait: bool = True, *, cancel_futures: bool = False) -> None:
        s = self._sched
        if s.aborting or not s.active:
            self._shutdown = True
            if wait:
                for t in self._workers:
                    if t.real is not None and t.real is not _real_threading.current_thread():
                        t.real.join(10.0)
            return
        s.yield_point("pool.shutdown")
        self._shutdown = True
        s.log("shutdown", self._id, s.me().idx, bool(wait), bool(cancel_futures))
        if cancel_futures:
            while self._queue:
                f, _fn, _a, _k = self._queue.popleft()
                f.cancel()
                s.stats_inc("future_cancelled")
        if wait:
            s.block(lambda: all(t.finished for t in self._workers), "pool.shutdown.wait")

    def __enter__(self):
        return self

    def __exit__(self, exc_type, exc, tb):
        self.shutdown(wait=True)
        return False


def sim_as_completed(sched: Scheduler):
    def as_completed(fs, timeout=None):
        fs = list(fs)
        # CPython de-duplicates via set(); keep submission order for determinism
        seen: list = []
        for f in fs:
            if not any(f is g for g in seen):
                seen.append(f)
        pending = seen
        while pending:
            if sched.aborting:
                raise SimAbort()
            sched.yield_point("as_completed")
            if not any(f.done() for f in pending):
                sched.block(lambda: any(f.done() for f in pending), "as_completed.wait")
            done = sorted((f for f in pending if f.done()), key=lambda f: f._seq)
            pending = [f for f in pending if not f.done()]
            for f in done:
                yield f

    return as_completed


def install_sched_extras(sched: Scheduler, *, spurious_rate: float = 0.0, rng_faults=None) -> None:
    """Attach the per-run bookkeeping the primitives expect on the scheduler."""
    sched.executors = []  # type: ignore[attr-defined]
    sched.idle_workers = set()  # type: ignore[attr-defined]
    sched.spurious_rate = spurious_rate  # type: ignore[attr-defined]
    sched.rng_faults = rng_faults  # type: ignore[attr-defined]
    sched.counters = collections.Counter()  # type: ignore[attr-defined]

    def stats_inc(name: str, n: int = 1) -> None:
        sched.counters[name] += n  # type: ignore[attr-defined]

    sched.stats_inc = stats_inc  # type: ignore[attr-defined]


def make_namespaces(sched: Scheduler):
    """Return (threading_ns, concurrent_ns) to rebind in the module under test."""
    threading_ns = types.SimpleNamespace(
        Lock=lambda: SimLock(sched, "lock"),
        RLock=lambda: SimRLock(sched, "rlock"),
        Condition=lambda lock=None: SimCondition(sched, lock),
        local=_real_threading.local,
        get_ident=_real_threading.get_ident,
        current_thread=_real_threading.current_thread,
        Thread=_real_threading.Thread,
        _sim=True,
    )
    futures_ns = types.SimpleNamespace(
        ThreadPoolExecutor=lambda *a, **k: SimExecutor(sched, *a, **k),
        as_completed=sim_as_completed(sched),
        CancelledError=CancelledError,
        Future=SimFuture,
        TimeoutError=_real_cf.TimeoutError,
        _sim=True,
    )
    concurrent_ns = types.SimpleNamespace(futures=futures_ns, _sim=True)
    return threading_ns, concurrent_ns


def release_abandoned_executors(sched: Scheduler) -> bool:
    """Used by drain(): executors never shut down leave idle workers parked
    forever (CPython wakes them when the executor is collected)."""
    changed = False
    for ex in sched.executors:  # type: ignore[attr-defined]
        if not ex._shutdown and not ex._queue:
            ex._shutdown = True
            changed = True
            sched.stats_inc("executor_never_shut_down")  # type: ignore[attr-defined]
    return changed


__all__ = [
    "SimLock",
    "SimRLock",
    "SimCondition",
    "SimFuture",
    "SimExecutor",
    "make_namespaces",
    "install_sched_extras",
    "release_abandoned_executors",
    "HarnessError",
]
