"""C10 — external tensor reads never escape the model directory (fail closed).

The varied "party" is the disk: an adversarial directory tree (in/out symlinks,
chained and absolute link targets, hard links, prefix-sibling directories) is
built per run; (base-directory spelling, location string, entry point) triples
are generated from a grammar; the oracle knows every file's real path, inode,
link count and canary and watches byte reads at the I/O seam.
See DESIGN.md section 5 (C10).
"""

from __future__ import annotations

import copy
import hashlib
import io
import itertools
import logging
import os
import stat

import numpy as np
import onnx
import onnx_ir as ir
import onnx_ir._io as _io
import onnx_ir.external_data as _ed

from iosim import fsseam, workload
from simcore.prng import Streams, digest

logging.getLogger("onnx_ir").setLevel(logging.ERROR)

PROPERTY = "C10"
LEVEL = "exploration"
TIERS = {
    "quick": {"max_runs": 1600, "optimize_runs": 320, "wall": 420, "optimize_wall": 180, "chunk": 8, "shrink_budget": 150, "shrink_wall": 40},
    "thorough": {"wall": 900, "optimize_wall": 120, "chunk": 8, "shrink_budget": 300, "shrink_wall": 120},
}
RULE = (
    "each evaluation = one (base-directory spelling, location string, entry point) triple against a freshly built adversarial tree, or one three-step history on a single tensor object (read; change base_dir / add a hard link / swap the file for an out-pointing symlink / release; read again through any entry point); "
    "locations are words over {., .., file and directory names, in/out symlinks, chained/absolute links, hard links, prefix siblings, "
    "empty components, absolute roots} generated target-first (a spelling of a chosen inside or outside file) or at random, up to 6 "
    "components; thorough additionally enumerates all words of <= 3 components x all base spellings x the tensor-level entry points; "
    "distinct = distinct (base id, location, entry, offset/length); non-trivial = the location denotes an existing file (inside or outside)"
)
ASSUMPTIONS = [
    "the documented TOCTOU window between check and open (docs/security.md) is not exercised: the tree is static during a read",
    "what a location denotes is computed with os.stat / os.path.realpath independently of the code under test",
    "rejecting an allowed location is not flagged (fail-closed is permitted); a reach counter checks that allowed reads do succeed",
    "byte reads are observed at the seam: read()/readinto() on files opened through the module-global open, mmap.mmap, os.copy_file_range",
]
REAL_STUB = {
    "real": ["ExternalTensor and every read path", "onnx_ir.load/save", "external_data.load_to_model / convert_tensors_from_external / unload_from_model", "kernel path resolution on tmpfs (symlinks, hard links)"],
    "stub": ["nothing is stubbed; open/os/mmap are observing proxies"],
    "harness_extension_points": [],
}
EXHAUSTIVE = {"quick": False, "thorough": False}

INSIDE_FILES = ["model/a.bin", "model/sub/b.bin", "model/sub/deeper/c.bin", "model/hl.bin", "model/m_data.bin"]
OUTSIDE_FILES = ["model_evil/e.bin", "modelx/x.bin", "secret/s.bin", "secret/h.bin", "secret/sub/t.bin", "top.bin", "alt2/a.bin", "alt2/sub/b.bin"]
HARDLINKS = {"model/hard_out": "secret/h.bin", "model/hard_in2": "model/hl.bin", "secret/hl_alias": "model/sub/deeper/c.bin"}
SYMLINKS = {
    "model/link_in": "a.bin",
    "model/dlink_in": "sub",
    "model/link_out": "../secret/s.bin",
    "model/dlink_out": "../secret",
    "model/chain": "link_out",
    "model/chain_in": "link_in",
    "model/abs_out": "{ROOT}/secret/s.bin",
    "model/abs_in": "{ROOT}/model/a.bin",
    "model/sub/up": "..",
    "model/sub/up2": "../..",
    "model/evil_link": "../model_evil",
    "model/loop": "loop",
    "model/dangling": "nowhere.bin",
    "mlink": "model",
    "secret/back": "../model",
    "alt/a.bin": "../secret/s.bin",
    "alt/sub/b.bin": "../../secret/sub/t.bin",
    "alt/sublink": "../model/sub",  # a symlinked directory: "alt/sublink/.." is the model directory, not "alt"
}
DIRS = ["model/sub/deeper", "model/empty", "model_evil", "modelx", "secret/sub", "subx", "out", "alt/sub", "alt2/sub"]
COMPONENTS = [
    ".", "..", "", "a.bin", "sub", "b.bin", "deeper", "c.bin", "hl.bin", "link_in", "dlink_in", "link_out", "dlink_out", "chain", "abs_out",
    "abs_in", "up", "hard_out", "hard_in2", "evil_link", "e.bin", "s.bin", "h.bin", "secret", "model", "model_evil", "modelx", "x.bin", "back", "nonexist",
]  # fmt: skip
ENUM_COMPONENTS = [".", "..", "", "a.bin", "sub", "b.bin", "link_in", "dlink_in", "link_out", "dlink_out", "chain", "abs_out", "up", "hard_out", "hard_in2", "evil_link", "e.bin", "s.bin", "secret", "model", "model_evil", "back"]
BASES = [
    ("root", "{ROOT}/model"),
    ("root", "model"),
    ("root", "./model"),
    ("root", "model/"),
    ("root", "model/."),
    ("root", "subx/../model"),
    ("root", "mlink"),
    ("model", "."),
    ("root", "{ROOT}/mlink"),
    ("subx", "../model"),
    ("root", "{ROOT}/model/"),
    ("root", "model//"),
    ("root", "secret/back"),
    ("root", "alt/sublink/.."),
]
TENSOR_ENTRIES = ["numpy", "asarray", "tobytes", "tofile_bytesio", "tofile_real", "tofile_nocfr", "load_to_model", "convert_from_external", "resave", "size0_numpy", "size0_tofile", "size0_tobytes"]
MODEL_PATHS = [
    ("root", "{ROOT}/model/m.onnx"),
    ("root", "model/m.onnx"),
    ("root", "./model/m.onnx"),
    ("model", "m.onnx"),
    ("model", "./m.onnx"),
    ("root", "mlink/m.onnx"),
    ("root", "subx/../model/m.onnx"),
    ("model", "PATH:m.onnx"),
    ("root", "PATH:model/m.onnx"),
    ("model", "sub/../m.onnx"),
    ("root", "alt/sublink/../m.onnx"),
    ("root", "{ROOT}/alt/sublink/../m.onnx"),
    ("alt", "sublink/../m.onnx"),
    ("root", "./alt/sublink/../m.onnx"),
]
LOAD_ENTRIES = ["load_numpy", "load_tobytes", "load_tofile"]
# where in the model file the external tensor sits ("all tensors of the model" get the base directory)
PLACES = ["main_init", "main_attr", "main_attr_list", "sub_init", "sub_attr", "sub2_init", "sub2_attr", "func_attr", "func_sub_attr", "func_sub_init", "funcdefault", "funcdefault_list", "funcdefault_graph", "graphs_init", "graphs_attr"]
# multi-step histories on ONE tensor object: read, change the world or the base directory, read again
HIST_LOCS = ["a.bin", "sub/b.bin", "sub/deeper/c.bin", "link_in", "dlink_in/b.bin"]
HIST_FIRST = ["numpy", "tobytes", "tofile_bytesio", "asarray", "none"]
HIST_MUTATIONS = ["base_alt", "base_alt2", "base_setter_graph", "hardlink_added", "swapped_for_symlink_out", "none", "release"]
# transient errors of stat(2) while the containment check runs (the check must fail closed)
STAT_ERRNOS = ["EACCES", "EIO", "ENOMEM", "EOVERFLOW"]
HIST_SECOND = ["numpy", "asarray", "tobytes", "tofile_bytesio", "tofile_real", "tofile_nocfr", "load_to_model", "convert_from_external", "resave"]


def canary(rel: str) -> bytes:
    return hashlib.sha256(rel.encode()).digest() * 2


def build_world(root: str, file_modes: str | None = None) -> dict:
    for d in DIRS:
        os.makedirs(os.path.join(root, d), exist_ok=True)
    for rel in INSIDE_FILES + OUTSIDE_FILES:
        with open(os.path.join(root, rel), "wb") as f:
            f.write(canary(rel))
    for link, target in HARDLINKS.items():
        os.link(os.path.join(root, target), os.path.join(root, link))
    for link, target in SYMLINKS.items():
        os.symlink(target.replace("{ROOT}", root), os.path.join(root, link))
    # permission bits of the files (a hard link shares them with its target): read-only stores, private keys, ...
    if file_modes:
        for rel in INSIDE_FILES + OUTSIDE_FILES:
            outside = rel in OUTSIDE_FILES
            mode = {"ro_all": 0o444, "ro_outside": 0o400 if outside else 0o644, "none_outside": 0o000 if outside else 0o644, "exec_all": 0o555}[file_modes]
            os.chmod(os.path.join(root, rel), mode)
    realbase = os.path.realpath(os.path.join(root, "model"))
    forbidden = {}
    for d, _dirs, files in os.walk(root):
        for fn in files:
            p = os.path.join(d, fn)
            if os.path.islink(p):
                continue
            st_ = os.stat(p)
            rp = os.path.realpath(p)
            inside = rp.startswith(realbase + os.sep)
            if not inside or st_.st_nlink > 1:
                forbidden[(st_.st_dev, st_.st_ino)] = os.path.relpath(p, root)
    return {"realbase": realbase, "forbidden": forbidden}


def denotes(root: str, cwd: str, base: str, loc: str, realbase: str):
    """(allowed, relpath of the denoted regular file or None, exists, resolves inside the base)."""
    p = os.path.join(base, loc)
    absp = p if os.path.isabs(p) else os.path.join(cwd, p)
    try:
        rp = os.path.realpath(absp)
    except (OSError, ValueError):
        return False, None, False, False
    inside = rp == realbase or rp.startswith(realbase + os.sep)
    try:
        st_ = os.stat(absp)
    except (OSError, ValueError):
        return False, None, False, inside
    if not stat.S_ISREG(st_.st_mode):
        return False, None, True, inside
    rel = os.path.relpath(rp, root)
    return bool(inside and st_.st_nlink == 1), rel, True, inside


# ---------------------------------------------------------------- generation
def _spell(r, target_rel: str) -> str:
    """A location string (relative to model/) that reaches root/<target_rel> one way or another."""
    parts = target_rel.split("/")
    if parts[0] == "model":
        segs = parts[1:]
        opts = ["/".join(segs)]
        if segs[:1] == ["sub"]:
            opts.append("/".join(["dlink_in"] + segs[1:]))
            opts.append("/".join(["sub", "up", "sub"] + segs[1:]))
        if segs == ["a.bin"]:
            opts += ["link_in", "chain_in", "abs_in", "sub/../a.bin", "sub/up/a.bin", "./a.bin", "empty/../a.bin", "a.bin/", "dlink_out/back/a.bin", "../model/a.bin", "dlink_out/../model/a.bin", ".//a.bin"]
        if segs == ["hl.bin"]:
            opts += ["hard_in2"]
        opts.append("{ROOT}/" + target_rel)
        opts.append("../model/" + "/".join(segs))
        opts.append("sub/up2/model/" + "/".join(segs))
    else:
        opts = ["../" + target_rel, "sub/../../" + target_rel, "{ROOT}/" + target_rel, "sub/up2/" + target_rel, "../mlink/../" + target_rel, "./../" + target_rel]
        if parts[0] == "secret":
            opts.append("/".join(["dlink_out"] + parts[1:]))
            if parts[1:] == ["s.bin"]:
                opts += ["link_out", "chain", "abs_out"]
            if parts[1:] == ["h.bin"]:
                opts += ["hard_out"]
        if parts[0] == "model_evil":
            opts.append("/".join(["evil_link"] + parts[1:]))
            opts.append("../model_evil/" + "/".join(parts[1:]))
    return r.choice(opts)


def _random_loc(r) -> str:
    k = r.randint(1, 6)
    comps = [r.choice(COMPONENTS) for _ in range(k)]
    s = "/".join(comps)
    if r.random() < 0.08:
        s = "{ROOT}/" + s
    if r.random() < 0.05:
        s = "/" + s
    return s


def gen_case(run_seed: int, tier: str, index: int = 0) -> dict:
    st = Streams(run_seed)
    r = st.rng("config")
    triples = []
    if tier == "thorough" and index < enum_chunks():
        triples = enum_chunk(index)
        return {"property": PROPERTY, "run_seed": run_seed, "triples": triples, "enumerated_chunk": index, "file_modes": Streams(run_seed).rng("file-modes").choice([None, None, None, "ro_all", "ro_outside", "none_outside", "exec_all"])}
    n = 160
    rf = st.rng("faults")
    for _ in range(n):
        # transient failure of the first os.stat made during the evaluated access (separate stream: old cases keep their triples)
        sf = rf.choice(STAT_ERRNOS) if rf.random() < 0.15 else None
        mode = r.random()
        if mode < 0.35:
            loc = _spell(r, r.choice(INSIDE_FILES))
        elif mode < 0.7:
            loc = _spell(r, r.choice(OUTSIDE_FILES))
        else:
            loc = _random_loc(r)
        if r.random() < 0.06:
            loc = loc + r.choice(["/", "/.", "//"])
        bs = st.rng("backslashes")
        if bs.random() < 0.08:
            # the separators of another platform: on POSIX a backslash is an ordinary character of a file name, so such a
            # location denotes (at most) one oddly named file inside the base directory - never a path to walk
            k_ = bs.random()
            loc = loc.replace("/", "\\") if k_ < 0.5 else loc.replace("/", "\\", 1) if k_ < 0.8 else loc.replace("../", "..\\")
        off, ln = r.choice([(0, 16), (0, 16), (8, 16), (48, 16), (0, 64), (60, 16), (0, 1)])
        if r.random() < 0.2:
            triples.append({"level": "history", "loc": r.choice(HIST_LOCS), "first": r.choice(HIST_FIRST), "mutation": r.choice(HIST_MUTATIONS), "entry": r.choice(HIST_SECOND), "off": off if off + ln <= 64 else 0, "len": ln if off + ln <= 64 else 16, "base": 0, "stat_fault": sf})
            continue
        if r.random() < 0.25:
            mp = r.randrange(len(MODEL_PATHS))
            triples.append({"level": "load", "model_path": mp, "loc": loc, "entry": r.choice(LOAD_ENTRIES), "off": off, "len": ln, "place": r.choice(PLACES) if r.random() < 0.6 else "main_init", "stat_fault": sf})
        else:
            triples.append({"level": "tensor", "base": r.randrange(len(BASES)), "loc": loc, "entry": r.choice(TENSOR_ENTRIES), "off": off, "len": ln, "stat_fault": sf})
    return {"property": PROPERTY, "run_seed": run_seed, "triples": triples, "file_modes": Streams(run_seed).rng("file-modes").choice([None, None, None, "ro_all", "ro_outside", "none_outside", "exec_all"])}


_ENUM_ENTRIES = ["numpy", "tobytes", "tofile_bytesio", "tofile_real"]
_ENUM_CHUNK = 4000


def _enum_locations():
    for k in (1, 2, 3):
        for comps in itertools.product(ENUM_COMPONENTS, repeat=k):
            yield "/".join(comps)


def enum_total() -> int:
    n = len(ENUM_COMPONENTS)
    return (n + n * n + n * n * n) * len(BASES)


def enum_chunks() -> int:
    return -(-enum_total() // _ENUM_CHUNK)


def enum_chunk(i: int) -> list[dict]:
    lo, hi = i * _ENUM_CHUNK, (i + 1) * _ENUM_CHUNK
    out = []
    j = 0
    for loc in _enum_locations():
        for b in range(len(BASES)):
            if lo <= j < hi:
                out.append({"level": "tensor", "base": b, "loc": loc, "entry": _ENUM_ENTRIES[j % len(_ENUM_ENTRIES)], "off": 0, "len": 16})
            j += 1
            if j >= hi:
                return out
    return out


# ----------------------------------------------------------------- execution
def _mk_tensor(loc: str, base: str, off: int, ln: int, size0: bool = False):
    shape = [0] if size0 else [ln]
    return ir.ExternalTensor(loc, off, 0 if size0 else ln, ir.DataType.UINT8, shape=ir.Shape(shape), name="x", base_dir=base)


def _model_with(t) -> ir.Model:
    v = ir.Value(name="x", const_value=t)
    g = ir.Graph(inputs=[], outputs=[], nodes=[], initializers=[v], name="g", opset_imports={"": 20})
    return ir.Model(g, ir_version=10)


def _if_node(container, name: str):
    """Append an If node with two empty branches to a GraphProto/FunctionProto; returns (node, then_graph)."""
    n = container.node.add()
    n.op_type = "If"
    n.name = name
    n.input.append("cond")
    n.output.append(name + "_out")
    graphs = []
    for br in ("then_branch", "else_branch"):
        a = n.attribute.add()
        a.name = br
        a.type = onnx.AttributeProto.GRAPH
        a.g.name = name + "_" + br
        graphs.append(a.g)
    return n, graphs[0]


def _const_node(container, list_attr: bool = False):
    n = container.node.add()
    n.op_type = "Constant"
    n.name = "const_x"
    n.output.append("cx")
    a = n.attribute.add()
    if list_attr:
        a.name = "values"
        a.type = onnx.AttributeProto.TENSORS
        return a.tensors.add()
    a.name = "value"
    a.type = onnx.AttributeProto.TENSOR
    return a.t


def _write_model_file(path: str, loc: str, off: int, ln: int, place: str = "main_init") -> None:
    m = onnx.ModelProto()
    m.ir_version = 10
    m.opset_import.add().version = 20
    m.graph.name = "g"
    ci = m.graph.input.add()
    ci.name = "cond"
    ci.type.tensor_type.elem_type = onnx.TensorProto.BOOL
    if place.startswith("func"):
        f = m.functions.add()
        f.domain, f.name = "fd", "fn"
        f.input.append("cond")
        f.opset_import.add().version = 20
        m.opset_import.add().domain = "fd"
        m.opset_import[-1].version = 1
        cont = f
    else:
        cont = m.graph
    if place.startswith("funcdefault"):
        # the default value of a function attribute (FunctionProto.attribute_proto)
        f.output.append("fo")
        nd = f.node.add()
        nd.op_type, nd.name = "Identity", "fid"
        nd.input.append("cond")
        nd.output.append("fo")
        ap = f.attribute_proto.add()
        ap.name = "t"
        if place.endswith("graph"):
            # the default value is a GRAPH whose initializer is the external tensor
            ap.type = onnx.AttributeProto.GRAPH
            ap.g.name = "default_body"
            t = ap.g.initializer.add()
        elif place.endswith("list"):
            ap.type = onnx.AttributeProto.TENSORS
            t = ap.tensors.add()
        else:
            ap.type = onnx.AttributeProto.TENSOR
            t = ap.t
        t.name = "x"
        t.data_type = onnx.TensorProto.UINT8
        t.dims.append(ln)
        t.data_location = onnx.TensorProto.EXTERNAL
        for k, v in (("location", loc), ("offset", str(off)), ("length", str(ln))):
            e = t.external_data.add()
            e.key, e.value = k, v
        with open(path, "wb") as fh:
            fh.write(m.SerializeToString())
        return
    if place.startswith("graphs_"):
        # inside one of the graphs of a list-of-graphs attribute (AttributeType.GRAPHS) of a custom operator
        m.opset_import.add().domain = "custom"
        m.opset_import[-1].version = 1
        nd = m.graph.node.add()
        nd.op_type, nd.domain, nd.name = "Switch", "custom", "sw"
        nd.input.append("cond")
        nd.output.append("sw_out")
        at = nd.attribute.add()
        at.name, at.type = "branches", onnx.AttributeProto.GRAPHS
        g0 = at.graphs.add()
        g0.name = "case0"
        g1 = at.graphs.add()
        g1.name = "case1"
        cont2 = g1
        t = cont2.initializer.add() if place.endswith("init") else _const_node(cont2)
        t.name = "x"
        t.data_type = onnx.TensorProto.UINT8
        t.dims.append(ln)
        t.data_location = onnx.TensorProto.EXTERNAL
        for k, v in (("location", loc), ("offset", str(off)), ("length", str(ln))):
            e = t.external_data.add()
            e.key, e.value = k, v
        with open(path, "wb") as fh:
            fh.write(m.SerializeToString())
        return
    where = place.split("_", 1)[1] if place.startswith("func") else place
    depth = 2 if where.startswith("sub2") else (1 if where.startswith("sub") else 0)
    for d in range(depth):
        _n, cont = _if_node(cont, f"if{d}")
    if where.endswith("init"):
        t = cont.initializer.add()
    else:
        t = _const_node(cont, list_attr=where.endswith("attr_list"))
    t.name = "x"
    t.data_type = onnx.TensorProto.UINT8
    t.dims.append(ln)
    t.data_location = onnx.TensorProto.EXTERNAL
    for k, v in (("location", loc), ("offset", str(off)), ("length", str(ln))):
        e = t.external_data.add()
        e.key, e.value = k, v
    with open(path, "wb") as f:
        f.write(m.SerializeToString())


def _find_external(model):
    """The single external tensor of a loaded model, wherever it sits."""
    found = []

    def graph(g):
        inits = getattr(g, "initializers", None)
        if inits is not None:
            for v in inits.values():
                if isinstance(v.const_value, ir.ExternalTensor):
                    found.append(v.const_value)
        for n in g:
            for a in n.attributes.values():
                if a.is_ref():
                    continue
                if a.type == ir.AttributeType.TENSOR and isinstance(a.value, ir.ExternalTensor):
                    found.append(a.value)
                elif a.type == ir.AttributeType.TENSORS:
                    found.extend(x for x in a.value if isinstance(x, ir.ExternalTensor))
                elif a.type == ir.AttributeType.GRAPH:
                    graph(a.value)
                elif a.type == ir.AttributeType.GRAPHS:
                    for sg in a.value:
                        graph(sg)

    graph(model.graph)
    for f in model.functions.values():
        graph(f)
        for a in f.attributes.values():
            if a.is_ref() or a.value is None:
                continue
            if a.type == ir.AttributeType.TENSOR and isinstance(a.value, ir.ExternalTensor):
                found.append(a.value)
            elif a.type == ir.AttributeType.TENSORS:
                found.extend(x for x in a.value if isinstance(x, ir.ExternalTensor))
            elif a.type == ir.AttributeType.GRAPH:
                graph(a.value)
            elif a.type == ir.AttributeType.GRAPHS:
                for sg in a.value:
                    graph(sg)
    if len(found) != 1:
        raise AssertionError(f"harness: expected one external tensor in the loaded model, found {len(found)}")
    return found[0]


def _tensor_entry(entry: str, t, root: str, seam) -> bytes:
    out_file = os.path.join(root, "out", "dst.bin")
    if entry in ("numpy", "size0_numpy"):
        return t.numpy().tobytes()
    if entry == "asarray":
        return np.asarray(t).tobytes()
    if entry in ("tobytes", "size0_tobytes"):
        return bytes(t.tobytes())
    if entry in ("tofile_bytesio", "size0_tofile"):
        b = io.BytesIO()
        t.tofile(b)
        return b.getvalue()
    if entry in ("tofile_real", "tofile_nocfr"):
        seam.hide_copy_file_range = entry == "tofile_nocfr"
        try:
            with open(out_file, "wb") as f:
                t.tofile(f)
        finally:
            seam.hide_copy_file_range = False
        with open(out_file, "rb") as f:
            return f.read()
    if entry == "load_to_model":
        m = _model_with(t)
        _ed.load_to_model(m)
        return bytes(m.graph.initializers["x"].const_value.tobytes())
    if entry == "convert_from_external":
        (mem,) = _ed.convert_tensors_from_external([t])
        return bytes(mem.tobytes())
    if entry == "resave":
        m = _model_with(t)
        _ed.unload_from_model(m, os.path.join(root, "out"), "w2.data", size_threshold_bytes=0)
        with open(os.path.join(root, "out", "w2.data"), "rb") as f:
            return f.read()
    raise ValueError(entry)


def _forbidden_now(root: str, base: str) -> dict:
    realbase = os.path.realpath(base)
    out = {}
    for d, _dirs, files in os.walk(root):
        for fn in files:
            p = os.path.join(d, fn)
            if os.path.islink(p):
                continue
            try:
                st_ = os.stat(p)
            except OSError:
                continue
            rp = os.path.realpath(p)
            if not rp.startswith(realbase + os.sep) or st_.st_nlink > 1:
                out[(st_.st_dev, st_.st_ino)] = os.path.relpath(p, root)
    return out


def _arm_stat_fault(seam, tr: dict) -> None:
    seam.read_kind_counts.clear()
    seam.fired.clear()
    seam.read_faults = [{"kind": "stat", "nth": 0, "errno": tr["stat_fault"]}] if tr.get("stat_fault") else []


def _disarm_stat_fault(seam, inc) -> None:
    if seam.fired:
        inc("fault_stat_fired")
        inc("fault_stat_" + seam.fired[0]["errno"])
    seam.read_faults = []
    seam.fired.clear()


def run_history(tr: dict, root: str, seam, inc) -> tuple | None:
    """read -> change the world / the base directory -> read again, on ONE tensor object."""
    os.chdir(root)
    base1 = os.path.join(root, "model")
    loc, off, ln = tr["loc"], tr["off"], tr["len"]
    t = _mk_tensor(loc, base1, off, ln)
    first_bytes = None
    if tr["first"] != "none":
        try:
            first_bytes = _tensor_entry(tr["first"], t, root, seam)
            inc("history_first_read_ok")
        except Exception:  # noqa: BLE001
            inc("history_first_read_raised")
    undo = []
    mut = tr["mutation"]
    try:
        if mut == "base_alt":
            t.base_dir = os.path.join(root, "alt")
        elif mut == "base_alt2":
            t.base_dir = os.path.join(root, "alt2")
        elif mut == "base_setter_graph":
            m = _model_with(t)
            _ed.set_base_dir(m.graph, os.path.join(root, "alt"))
        elif mut == "hardlink_added":
            target = os.path.realpath(os.path.join(base1, loc))
            extra = os.path.join(root, "out", "extra_hl")
            os.link(target, extra)
            undo.append(lambda: os.unlink(extra))
        elif mut == "swapped_for_symlink_out":
            target = os.path.realpath(os.path.join(base1, loc))
            os.rename(target, target + ".bak")
            os.symlink(os.path.join(root, "secret", "s.bin"), target)
            undo.append(lambda: (os.unlink(target), os.rename(target + ".bak", target)))
        elif mut == "release":
            t.release()
        inc("history_mutation_" + mut)
        seam.reads.clear()
        seam.effects.clear()
        got = None
        raised = None
        _arm_stat_fault(seam, tr)
        try:
            got = _tensor_entry(tr["entry"], t, root, seam)
        except Exception as e:  # noqa: BLE001
            raised = e
        finally:
            stat_fired = bool(seam.fired)
            _disarm_stat_fault(seam, inc)
        base_now = os.fspath(t.base_dir)
        realbase_now = os.path.realpath(base_now)
        allowed, den_rel, exists, _inside = denotes(root, root, base_now, loc, realbase_now)
        forb = _forbidden_now(root, base_now)
        byte_reads = [(k, ino) for (k, _p, ino) in seam.reads if k in ("read", "mmap", "copy_file_range_src")]
        bad = [(k, forb[ino]) for (k, ino) in byte_reads if ino in forb]
        desc = f"{tr['first']} -> {mut} -> {tr['entry']} on location {loc!r}"
        if bad:
            return ("read-forbidden-file", f"history {desc}: the second access read bytes of {bad[0][1]} via {bad[0][0]} ({'returned' if raised is None else 'raised ' + type(raised).__name__})", f"read-forbidden-file|history|{mut}" + ("|stat-fault" if stat_fired else ""))
        if raised is None:
            inc("history_second_returned")
            rereads = tr["entry"] in ("tofile_bytesio", "tofile_real", "tofile_nocfr", "resave")
            want_now = canary(den_rel)[off : off + ln] if (allowed and den_rel) else None
            if rereads and not allowed:
                return ("returned-for-forbidden-location", f"history {desc}: returned {len(got or b'')} bytes although the location now denotes {den_rel if exists else 'no file'} (not allowed)", f"returned-for-forbidden-location|history|{mut}")
            if got is not None and got != want_now and (first_bytes is None or got != first_bytes or rereads):
                return ("wrong-bytes", f"history {desc}: returned bytes that are neither the current file's slice nor the bytes read before", f"wrong-bytes|history|{mut}")
        else:
            inc("history_second_raised")
        return None
    finally:
        for u in reversed(undo):
            try:
                u()
            except Exception:  # noqa: BLE001
                pass
        try:
            t.release()
        except Exception:  # noqa: BLE001
            pass


def run_case(case: dict) -> dict:
    root = workload.new_scratch("c10")
    stats: dict = {}
    res = {"violation": None, "violations": [], "error": None, "stats": stats, "steps": 0, "distinct": [], "states": [], "case": case}
    old_cwd = os.getcwd()
    try:
        _run(case, root, res)
    except fsseam.SeamLost as e:
        res["error"] = f"SEAM-LOST: {e}"
    finally:
        os.chdir(old_cwd)
        workload.rm_scratch(root)
    return res


def _run(case: dict, root: str, res: dict) -> None:
    stats = res["stats"]

    def inc(k, n=1):
        stats[k] = stats.get(k, 0) + n

    root = os.path.realpath(root)
    world = build_world(root, case.get("file_modes"))
    if case.get("file_modes"):
        inc("cfg_file_modes_" + case["file_modes"])
    realbase = world["realbase"]
    forbidden = world["forbidden"]
    seam = fsseam.FsSeam(root)
    seam.track_reads = True
    rb = fsseam.Rebind()
    trail = []
    samples = []
    with rb:
        fsseam.install_fs(rb, seam)
        for ti, tr in enumerate(case["triples"]):
            if tr["level"] == "history":
                hv = run_history(tr, root, seam, inc)
                inc("evaluations")
                inc("history_evaluations")
                res["distinct"].append(digest(("h", tr["loc"], tr["first"], tr["mutation"], tr["entry"], tr["off"], tr["len"])))
                trail.append((ti, "history", hv[0] if hv else None))
                if hv is not None:
                    viol = {"clause": hv[0], "detail": hv[1], "key": hv[2], "triple": tr}
                    res["violations"].append(viol)
                    if res["violation"] is None:
                        res["violation"] = viol
                        # keep the evaluations before it: process-wide state (a cache in the code under test) may matter;
                        # the minimiser tries the single triple first
                        c = copy.deepcopy(case)
                        c["triples"] = case["triples"][: ti + 1]
                        c.pop("enumerated_chunk", None)
                        res["case"] = c
                continue
            loc = tr["loc"].replace("{ROOT}", root)
            off, ln = tr["off"], tr["len"]
            if tr["level"] == "tensor":
                cwd_rel, base_t = BASES[tr["base"]]
                base = base_t.replace("{ROOT}", root)
            else:
                cwd_rel, mp_t = MODEL_PATHS[tr["model_path"]]
                base = None
            cwd = root if cwd_rel == "root" else os.path.join(root, cwd_rel)
            os.chdir(cwd)
            seam.reads.clear()
            seam.effects.clear()
            got: bytes | None = None
            raised: BaseException | None = None
            entry = tr["entry"]
            size0 = entry.startswith("size0")
            out_file = os.path.join(root, "out", "dst.bin")
            loaded_base_ok = True
            _arm_stat_fault(seam, tr)
            try:
                if tr["level"] == "tensor":
                    t = _mk_tensor(loc, base, off, ln, size0=size0)
                    if entry in ("numpy", "size0_numpy"):
                        got = t.numpy().tobytes()
                    elif entry == "asarray":
                        got = np.asarray(t).tobytes()
                    elif entry in ("tobytes", "size0_tobytes"):
                        got = bytes(t.tobytes())
                    elif entry in ("tofile_bytesio", "size0_tofile"):
                        b = io.BytesIO()
                        t.tofile(b)
                        got = b.getvalue()
                    elif entry in ("tofile_real", "tofile_nocfr"):
                        seam.hide_copy_file_range = entry == "tofile_nocfr"
                        with open(out_file, "wb") as f:
                            t.tofile(f)
                        seam.hide_copy_file_range = False
                        with open(out_file, "rb") as f:
                            got = f.read()
                    elif entry == "load_to_model":
                        m = _model_with(t)
                        _ed.load_to_model(m)
                        got = bytes(m.graph.initializers["x"].const_value.tobytes())
                    elif entry == "convert_from_external":
                        (mem,) = _ed.convert_tensors_from_external([t])
                        got = bytes(mem.tobytes())
                    elif entry == "resave":
                        m = _model_with(t)
                        _ed.unload_from_model(m, os.path.join(root, "out"), "w2.data", size_threshold_bytes=0)
                        with open(os.path.join(root, "out", "w2.data"), "rb") as f:
                            got = f.read()
                    else:
                        raise ValueError(entry)
                else:
                    place = tr.get("place", "main_init")
                    _write_model_file(os.path.join(root, "model", "m.onnx"), loc, off, ln, place)
                    mp = mp_t.replace("{ROOT}", root)
                    if mp.startswith("PATH:"):
                        import pathlib

                        mp = pathlib.Path(mp[5:])
                    model = _io.load(mp)
                    t = _find_external(model)
                    inc("place_" + place)
                    bd = t.base_dir
                    # the loaded tensor's base directory must be the model's directory, whatever the spelling
                    if not bd or os.path.realpath(os.path.join(cwd, os.fspath(bd))) != realbase:
                        loaded_base_ok = False
                    base = os.fspath(bd) if bd else ""
                    if entry == "load_numpy":
                        got = t.numpy().tobytes()
                    elif entry == "load_tobytes":
                        got = bytes(t.tobytes())
                    else:
                        b = io.BytesIO()
                        t.tofile(b)
                        got = b.getvalue()
            except Exception as e:  # noqa: BLE001
                raised = e
            finally:
                seam.hide_copy_file_range = False
                stat_fired = bool(seam.fired)
                _disarm_stat_fault(seam, inc)
            # ---------------- oracle
            if tr["level"] == "load":
                ref_base = os.path.join(root, "model")
                allowed, den_rel, exists, res_inside = denotes(root, cwd, ref_base, loc, realbase)
            else:
                allowed, den_rel, exists, res_inside = denotes(root, cwd, base, loc, realbase)
            byte_reads = [(k, p, ino) for (k, p, ino) in seam.reads if k in ("read", "mmap", "copy_file_range_src")]
            bad = [(k, forbidden[ino]) for (k, _p, ino) in byte_reads if ino in forbidden]
            v = None
            key = None
            if not loaded_base_ok:
                v = ("base-dir-after-load", f"onnx_ir.load({MODEL_PATHS[tr['model_path']][1]!r}) with cwd={cwd_rel}: external tensor base_dir={bd!r} of the tensor at {tr.get('place', 'main_init')} does not resolve to the model's directory")
                key = f"base-dir-after-load|{MODEL_PATHS[tr['model_path']][1]}|{tr.get('place', 'main_init')}"
            elif bad:
                v = ("read-forbidden-file", f"{entry} on location {tr['loc']!r} (base {base!r}, cwd {cwd_rel}) read bytes of {bad[0][1]} via {bad[0][0]} ({'returned' if raised is None else 'raised ' + type(raised).__name__}){' after a transient ' + tr['stat_fault'] + ' from os.stat' if stat_fired else ''}")
                if stat_fired:
                    key = "read-forbidden-file|stat-fault"
            elif raised is None:
                if size0:
                    # nothing can be read for an empty tensor; only a location that leaves the base
                    # directory or names a multiply-linked file must still be refused
                    if not res_inside or (den_rel is not None and not allowed):
                        v = ("returned-for-forbidden-location", f"{entry} on location {tr['loc']!r} (base {base!r}, cwd {cwd_rel}) returned although the location resolves {'outside the base directory' if not res_inside else 'to the multiply-linked ' + str(den_rel)}")
                elif not allowed:
                    v = ("returned-for-forbidden-location", f"{entry} on location {tr['loc']!r} (base {base!r}, cwd {cwd_rel}) returned {len(got or b'')} bytes although the location denotes {den_rel if exists else 'no file'}")
                else:
                    want = b"" if size0 else canary(den_rel)[off : off + ln]
                    if got != want:
                        # may legitimately be shorter only if it raised; a return must be exact
                        v = ("wrong-bytes", f"{entry} on location {tr['loc']!r} returned bytes that are not {den_rel}[{off}:{off + ln}]")
            if v is None and got:
                for rel in OUTSIDE_FILES:
                    c = canary(rel)
                    if len(got) >= 8 and got[:8] in c and rel != den_rel:
                        v = ("outside-canary-returned", f"{entry} on {tr['loc']!r} returned bytes of {rel}")
                        break
            inc("evaluations")
            inc("entry_" + entry)
            if raised is None:
                inc("outcome_returned")
            else:
                inc("outcome_raised_" + ("allowed_location" if allowed else "forbidden_location"))
            if exists:
                res["distinct"].append(digest((tr.get("base", tr.get("model_path")), tr["loc"], entry, off, ln)))
                inc("loc_denotes_inside_ok" if allowed else "loc_denotes_forbidden_or_outside")
            else:
                inc("loc_denotes_nothing")
            if allowed and raised is None:
                inc("reach_allowed_read_succeeded")
            trail.append((ti, type(raised).__name__ if raised else "ok", len(got or b"")))
            if len(samples) < 6 and exists and (ti % 37 == 0):
                samples.append({"base": BASES[tr["base"]][1] if tr["level"] == "tensor" else "load:" + MODEL_PATHS[tr["model_path"]][1], "location": tr["loc"], "entry": entry, "denotes": den_rel, "allowed": allowed, "outcome": "returned" if raised is None else "raised " + type(raised).__name__})
            if v is not None:
                viol = {"clause": v[0], "detail": v[1], "key": key or v[0], "triple": tr}
                res["violations"].append(viol)
                if res["violation"] is None:
                    res["violation"] = viol
                    c = copy.deepcopy(case)
                    c["triples"] = case["triples"][: ti + 1]
                    c.pop("enumerated_chunk", None)
                    res["case"] = c
                if len(res["violations"]) >= 5:
                    break
    res["steps"] = len(case["triples"])
    res["event_digest"] = digest(trail)
    if samples:
        res["sample"] = samples[0] if len(samples) == 1 else {"triples": samples}
    if "enumerated_chunk" in case:
        inc("enumerated_chunks_done")


def shrink_candidates(case: dict, violation: dict):
    # run_case already pins the single failing triple; try simpler spellings of the same triple
    if len(case["triples"]) > 1:
        # the failing triple alone, then the failing triple after one earlier one, then halves of the prefix
        trs = case["triples"]
        c = copy.deepcopy(case)
        c["triples"] = [trs[-1]]
        yield c
        for tr in trs[:-1]:
            c = copy.deepcopy(case)
            c["triples"] = [tr, trs[-1]]
            yield c
        n = len(trs) - 1
        if n > 2:
            for part in (trs[: n // 2], trs[n // 2 : n]):
                c = copy.deepcopy(case)
                c["triples"] = part + [trs[-1]]
                yield c
        return
    tr = case["triples"][0]
    if tr["level"] == "history":
        for key, val in (("first", "numpy"), ("off", 0), ("len", 16)):
            if tr.get(key) != val:
                c = copy.deepcopy(case)
                c["triples"][0][key] = val
                yield c
        return
    parts = tr["loc"].split("/")
    for i in range(len(parts)):
        if len(parts) > 1:
            c = copy.deepcopy(case)
            c["triples"][0]["loc"] = "/".join(parts[:i] + parts[i + 1 :])
            yield c
    if tr.get("off") or tr.get("len") != 16:
        c = copy.deepcopy(case)
        c["triples"][0]["off"], c["triples"][0]["len"] = 0, 16
        yield c
    if tr["level"] == "tensor" and tr["base"] != 0:
        c = copy.deepcopy(case)
        c["triples"][0]["base"] = 0
        yield c
    if tr["level"] == "load" and tr.get("place", "main_init") != "main_init":
        for simpler in ("main_init", "main_attr", "sub_init", "sub_attr", "func_attr"):
            if simpler != tr["place"]:
                c = copy.deepcopy(case)
                c["triples"][0]["place"] = simpler
                yield c


def finding_key(case: dict, violation: dict) -> str:
    return violation.get("key") or violation.get("clause")


def check_reach(agg: dict, tier: str):
    st = agg["stats"]
    need = ["history_second_returned", "history_second_raised"] + ["history_mutation_" + m_ for m_ in HIST_MUTATIONS] + ["reach_allowed_read_succeeded", "outcome_raised_forbidden_location", "loc_denotes_forbidden_or_outside", "loc_denotes_inside_ok"] + ["entry_" + e for e in TENSOR_ENTRIES + LOAD_ENTRIES]
    missing = [k for k in need if not st.get(k)]
    return missing if agg["runs"] > 20 else []


def evidence_extra(agg: dict, tier: str) -> dict:
    st = agg["stats"]
    out = {"evaluations": st.get("evaluations", 0), "worlds_built": agg["runs"]}
    if tier == "thorough":
        done = st.get("enumerated_chunks_done", 0)
        out["enumeration"] = {"space": "all locations of <= 3 components over a 22-component alphabet x 13 base spellings (entry points rotated)", "triples": enum_total(), "chunks_total": enum_chunks(), "chunks_done": done}
        out["exhaustive"] = done >= enum_chunks()
    return out
