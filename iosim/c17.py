"""C17 — deserializing a damaged stored model terminates with an error or a consistent IR.

In-family reading: the model file is durable state; the faults are what disks
and torn writes do to it (bit flips, overwrites, truncation, duplicated /
deleted / misdirected spans) plus field-level damage of the parsed proto.  The
FS seam and an audit hook must stay silent during deserialization and tensor
inspection.  See DESIGN.md section 5 (C17).
"""

from __future__ import annotations

import copy
import logging
import json
import os
import random
import signal
import time
import sys
import warnings

import onnx
import onnx_ir as ir
import onnx_ir._core as _core
import onnx_ir._io as _io
from google.protobuf.message import DecodeError

from iosim import fsseam, workload
from irsim import invariants, modelgen
from irsim.world import World
from simcore.prng import Streams, digest

logging.getLogger("onnx_ir").setLevel(logging.CRITICAL)
warnings.filterwarnings("ignore")

PROPERTY = "C17"
HERMETIC = True  # one forked child per run: deserialization state kept at module level must not travel between runs
LEVEL = "exploration"
TIERS = {
    "quick": {"max_runs": 400, "optimize_runs": 80, "wall": 420, "optimize_wall": 180, "chunk": 10, "shrink_budget": 200, "shrink_wall": 60, "per_run_cap": 300.0},
    "thorough": {"wall": 900, "optimize_wall": 120, "chunk": 20, "shrink_budget": 400, "shrink_wall": 240, "per_run_cap": 600.0},
}
RULE = (
    "each run = one generated valid model (nested subgraphs, functions, metadata, external and inline initializers, optional device "
    "configurations) serialized, then 60 damaged variants: 1-3 byte-level operators {bit flip, byte overwrite, truncation (torn write), "
    "duplicated span, deleted span, splice from another model (misdirected write)} or 1-3 field-level operators on the parsed proto "
    "{dangling / duplicated / empty names, dropped types, shuffled / cyclic node order, out-of-range enum integers, dims inconsistent with "
    "payload, absurd external_data entries, duplicated initializers / functions, dangling device references, deep nesting}; variants the "
    "protobuf parser rejects are counted and discarded; survivors go to from_proto, a third also through a file and onnx_ir.load; "
    "distinct = digest of the damaged bytes; non-trivial = the damaged proto parsed and differs from the original"
)
ASSUMPTIONS = [
    "byte damage rejected by the protobuf parser itself is not ir-py code and is discarded (counted)",
    "termination is judged with a 20 s wall cap per input (typical < 10 ms); RecursionError counts as raising",
    "file access is observed through sys.addaudithook('open', ...), the interposed os / open / mmap names of onnx_ir._core and onnx_ir._io; accesses under the interpreter prefix, /repo and /verif (imports, linecache for tracebacks) are ignored",
    "onnx_ir.load necessarily reads the model file itself; only other paths count",
    "the fix-point comparison ignores value_info entries of initializers (documented normalisation: value-info is added for initializers)",
]
REAL_STUB = {"real": ["onnx_ir.serde (from_proto / to_proto)", "onnx_ir.load", "protobuf parser"], "stub": [], "harness_extension_points": []}

BYTE_OPS = ["bitflip", "overwrite", "truncate", "dup_span", "del_span", "splice"]
FIELD_OPS = [
    "dangling_input", "dup_output", "empty_name", "drop_type", "shuffle_nodes", "self_cycle", "bad_dtype", "bad_attr_type", "bad_dims", "ext_location",
    "ext_numbers", "dup_initializer", "dup_function", "dangling_output", "dup_graph_input", "dangling_device", "deep_nesting", "dup_value_info",
    "tensor_metadata", "missing_opset", "ref_attr", "sparse", "quant", "negative_dims", "string_tensor", "input_is_output", "sub_output_outer", "sub_output_outer", "sub_input_outer", "sub_init_outer", "output_is_initializer", "output_is_initializer",
    "function_identity", "function_identity", "func_inner_shadow", "func_inner_shadow", "dup_keyed", "dup_keyed", "storage_field", "storage_field", "quant", "dim_expr", "bad_utf8_attr", "bad_utf8_attr", "sibling_scope", "sibling_scope",
    "function_overloads", "function_overloads",
]  # fmt: skip
_IGNORED_PREFIXES = tuple(p for p in {sys.prefix, sys.base_prefix, "/repo", "/verif", "/venv", "/root/.pyenv", "/usr/lib/python3", "/usr/lib/python3.12", "/proc/self"} if p)

_audit = {"on": False, "events": []}


def _hook(event, args):
    if not _audit["on"]:
        return
    if event == "open" or event.startswith("os.") or event in ("mmap.__new__", "shutil.copyfile", "glob.glob"):
        try:
            p = args[0] if args else None
            if isinstance(p, bytes):
                p = p.decode("utf-8", "replace")
            if isinstance(p, int):
                return
            p = os.fspath(p) if p is not None else ""
        except Exception:  # noqa: BLE001
            p = repr(args[:1])
        if event in ("os.putenv", "os.unsetenv", "os.system", "os.fork", "os.kill"):
            return
        ap = os.path.abspath(p) if p else ""
        if ap.startswith(_IGNORED_PREFIXES):
            return
        _audit["events"].append((event, p))


sys.addaudithook(_hook)


# Path queries (stat / lstat / readlink / access / listdir / scandir) raise no audit event: while the audited window is
# open they are observed at the os module itself (posixpath.realpath, os.path.exists, pathlib all go through these names)
def _watch_os_function(name: str) -> None:
    real = getattr(os, name, None)
    if real is None or getattr(real, "_c17_watch", False):
        return

    def watched(*a, **k):
        if _audit["on"] and a and not isinstance(a[0], int):
            _audit["on"] = False
            try:
                try:
                    p = os.fspath(a[0])
                    if isinstance(p, bytes):
                        p = p.decode("utf-8", "replace")
                except Exception:  # noqa: BLE001
                    p = repr(a[:1])
                if not os.path.abspath(p).startswith(_IGNORED_PREFIXES):
                    _audit["events"].append(("os." + name, p))
            finally:
                _audit["on"] = True
        return real(*a, **k)

    watched._c17_watch = True  # type: ignore[attr-defined]
    watched.__name__ = name
    setattr(os, name, watched)


for _n in ("stat", "lstat", "readlink", "access", "listdir", "scandir"):
    _watch_os_function(_n)


class _Hang(BaseException):
    pass


def _on_alarm(signum, frame):
    raise _Hang()


signal.signal(signal.SIGALRM, _on_alarm)


def gen_case(run_seed: int, tier: str, index: int = 0) -> dict:
    r = Streams(run_seed).rng("workload")
    params = dict(
        p_graphs=Streams(run_seed).rng("graphs-attr").choice([0.0, 0.0, 0.12, 0.25]), ref_graph_attrs=Streams(run_seed).rng("ref-graph-attrs").choice([0.0, 0.0, 0.6]), more_ops=Streams(run_seed).rng("more-ops").random() < 0.5, n_nodes=r.choice([2, 4, 7, 10]), n_inputs=r.choice([1, 2]), n_inits=r.choice([1, 2, 3]), n_outputs=r.choice([1, 2]), n_functions=r.choice([0, 1, 2]),
        depth=r.choice([0, 1, 2]), typed=r.random() < 0.7, p_if=r.choice([0.15, 0.35]), metadata=r.random() < 0.6, ir_version=r.choice([9, 10, 11, 12]), name_style=r.choice([0, 0, 1]),
        init_as_input=r.choice([0.0, 0.4]), p_multi=0.2,
    )  # fmt: skip
    variants = []
    for _ in range(60):
        if r.random() < 0.45:
            variants.append({"level": "bytes", "ops": [[r.choice(BYTE_OPS), r.randrange(1 << 30), r.randrange(1 << 30)] for _ in range(r.choice([1, 1, 2, 3]))], "load": r.random() < 0.3})
        else:
            variants.append({"level": "field", "ops": [[r.choice(FIELD_OPS), r.randrange(1 << 30), r.randrange(1 << 30)] for _ in range(r.choice([1, 1, 2, 3]))], "load": r.random() < 0.3})
    # configuration knob of the library: onnx_ir.DEBUG (extra argument checks) must not change what deserialization touches
    return {"property": PROPERTY, "run_seed": run_seed, "model_seed": r.randrange(1 << 30), "params": params, "variants": variants, "devices": params["ir_version"] >= 11 and r.random() < 0.5, "external": r.random() < 0.6, "debug": Streams(run_seed).rng("debug-knob").random() < 0.3}


def base_proto(case: dict) -> onnx.ModelProto:
    rng = random.Random(case["model_seed"])
    model = modelgen.gen_model(rng, modelgen.Params(**case["params"]))
    if case.get("devices"):
        try:
            cfg = model.add_device_configuration("cfg0", num_devices=2)
            for n in list(model.graph)[:2]:
                t = n.outputs[0]
                if t.shape is not None and len(t.shape) > 0:
                    n.shard(t, configuration=cfg, axis=0, num_shards=2)
        except Exception:  # noqa: BLE001
            pass
    if case.get("external"):
        for i, v in enumerate(model.graph.initializers.values()):
            if i % 2 == 0 and v.const_value is not None:
                t = v.const_value
                v.const_value = ir.ExternalTensor(f"data/w{i}.bin", 8 * i, t.nbytes, t.dtype, shape=ir.Shape(list(t.shape.numpy())), name=v.name)
    for v in list(model.graph.initializers.values())[:1]:
        if v.const_value is not None and not isinstance(v.const_value, ir.ExternalTensor):
            v.const_value.metadata_props["tk"] = "tv"
    return ir.to_proto(model)


def damage_bytes(data: bytes, opsl: list, other: bytes) -> bytes:
    b = bytearray(data)
    for kind, a, c in opsl:
        n = len(b)
        if n == 0:
            break
        if kind == "bitflip":
            b[a % n] ^= 1 << (c % 8)
        elif kind == "overwrite":
            b[a % n] = c % 256
        elif kind == "truncate":
            del b[a % n :]
        elif kind == "dup_span":
            i = a % n
            ln = 1 + c % min(64, n - i) if n - i > 0 else 1
            b[i:i] = b[i : i + ln]
        elif kind == "del_span":
            i = a % n
            ln = 1 + c % min(64, n - i) if n - i > 0 else 1
            del b[i : i + ln]
        elif kind == "splice" and other:
            i = a % n
            j = c % len(other)
            ln = 1 + (a >> 8) % min(128, len(other) - j)
            b[i : i + ln] = other[j : j + ln]
    return bytes(b)


def _all_graphs(p: onnx.ModelProto):
    out = [p.graph]
    stack = [p.graph] + list(p.functions)  # function bodies hold control-flow subgraphs too
    while stack:
        g = stack.pop()
        for n in g.node:
            for a in n.attribute:
                if a.HasField("g"):
                    out.append(a.g)
                    stack.append(a.g)
                for sg in a.graphs:
                    out.append(sg)
                    stack.append(sg)
    return out


def damage_fields(p: onnx.ModelProto, opsl: list) -> None:
    for kind, a, c in opsl:
        graphs = _all_graphs(p)
        g = graphs[a % len(graphs)]
        nodes = list(g.node)
        n = nodes[c % len(nodes)] if nodes else None
        if kind == "dangling_input" and n is not None and n.input:
            n.input[a % len(n.input)] = "no_such_value" if c % 2 else ""
        elif kind == "dup_output" and n is not None and len(nodes) > 1:
            m = nodes[(c + 1) % len(nodes)]
            if m.output and n.output:
                n.output[0] = m.output[0]
        elif kind == "empty_name" and n is not None:
            if n.output and c % 2:
                n.output[0] = ""
            else:
                n.name = ""
                if g.input:
                    g.input[0].name = ""
        elif kind == "drop_type":
            for vi in list(g.value_info) + list(g.input) + list(g.output):
                if c % 3:
                    vi.ClearField("type")
        elif kind == "shuffle_nodes" and len(nodes) > 1:
            rng = random.Random(a)
            order = list(range(len(nodes)))
            rng.shuffle(order)
            copies = [copy.deepcopy(nodes[i]) for i in order]
            del g.node[:]
            g.node.extend(copies)
        elif kind == "self_cycle" and n is not None and n.output:
            if n.input:
                n.input[0] = n.output[0]
            else:
                n.input.append(n.output[0])
            if len(nodes) > 1 and c % 2:
                m = nodes[(c + 1) % len(nodes)]
                if m.output and n.input and m.input:
                    m.input[0] = n.output[0]
                    n.input[0] = m.output[0]
        elif kind == "bad_dtype":
            ts = list(g.initializer)
            if ts:
                ts[c % len(ts)].data_type = [0, 99, 2**31 - 1, -5 & 0x7FFFFFFF][c % 4]
            for vi in g.input:
                if vi.type.HasField("tensor_type") and c % 2:
                    vi.type.tensor_type.elem_type = 77
        elif kind == "bad_attr_type" and n is not None:
            at = n.attribute.add()
            at.name = "weird"
            at.type = [0, 99, 15, 1][c % 4]
            if c % 2:
                at.i = 3
        elif kind == "bad_dims":
            ts = list(g.initializer)
            if ts:
                t = ts[c % len(ts)]
                if c % 3 == 0:
                    t.dims.append(7)
                elif c % 3 == 1 and t.dims:
                    t.dims[0] = 2**40
                else:
                    t.raw_data = t.raw_data[: len(t.raw_data) // 2]
        elif kind == "negative_dims":
            ts = list(g.initializer)
            if ts and ts[c % len(ts)].dims:
                ts[c % len(ts)].dims[0] = -3
            for vi in g.input:
                if vi.type.HasField("tensor_type") and vi.type.tensor_type.shape.dim:
                    vi.type.tensor_type.shape.dim[0].dim_value = -1
        elif kind in ("ext_location", "ext_numbers"):
            ts = list(g.initializer)
            if not ts:
                continue
            t = ts[c % len(ts)]
            t.data_location = onnx.TensorProto.EXTERNAL
            t.ClearField("raw_data")
            del t.external_data[:]
            locs = ["../../etc/passwd", "/etc/passwd", "", "canary.bin", "sub/../canary.bin", "a\x00b", "//", ".", "data/w0.bin", "C:\\x", "canary.bin/"]
            vals = {"location": locs[a % len(locs)], "offset": "0", "length": "16"}
            if kind == "ext_numbers":
                nums = ["-1", str(2**63), "abc", "", "1e9", "0x10", str(2**80), "-0"]
                vals["offset"] = nums[a % len(nums)]
                vals["length"] = nums[(a >> 4) % len(nums)]
                vals["location"] = "canary.bin"
            for k, v in vals.items():
                e = t.external_data.add()
                e.key, e.value = k, v
            if c % 5 == 0:
                e = t.external_data.add()
                e.key, e.value = "location", "second.bin"
        elif kind == "dup_initializer" and g.initializer:
            t = g.initializer.add()
            t.CopyFrom(g.initializer[0])
        elif kind == "dup_function" and p.functions:
            f = p.functions.add()
            f.CopyFrom(p.functions[0])
        elif kind == "dangling_output":
            vi = g.output.add()
            vi.name = "never_produced" if c % 2 else ""
        elif kind == "dup_graph_input" and g.input:
            vi = g.input.add()
            vi.CopyFrom(g.input[0])
        elif kind == "input_is_output" and g.input and n is not None and n.output:
            n.output[0] = g.input[0].name
        elif kind == "output_is_initializer" and n is not None and n.output and g.initializer:
            # a node re-declares the name of an initializer (preferably a small external one)
            ts = [t for t in g.initializer if t.data_location == onnx.TensorProto.EXTERNAL] or list(g.initializer)
            n.output[a % len(n.output)] = ts[c % len(ts)].name
        elif kind == "dangling_device" and n is not None and hasattr(n, "device_configurations"):
            d = n.device_configurations.add()
            d.configuration_id = "no_such_cfg" if c % 2 else ""
            s = d.sharding_spec.add()
            s.tensor_name = "no_such_tensor"
            s.device.append(99)
            sd = s.sharded_dim.add()
            sd.axis = 9
        elif kind == "deep_nesting" and n is not None:
            depth = [3, 40, 400][c % 3]
            cur = n
            for _ in range(depth):
                at = cur.attribute.add()
                at.name = "body"
                at.type = onnx.AttributeProto.GRAPH
                at.g.name = "deep"
                cur = at.g.node.add()
                cur.op_type = "If"
                cur.output.append("deep_out")
        elif kind == "function_identity" and p.functions:
            # odd but storable function identities: an overload (also below IR version 10), '/' in the name, '::' in
            # the domain - together with value_info on the function's values and an old IR version
            f = p.functions[c % len(p.functions)]
            old_id = (f.domain, f.name, f.overload)
            which = (c >> 3) % 4
            if which == 0:
                f.overload = "ov1"
            elif which == 1:
                f.name = "my/" + f.name
            elif which == 2:
                f.domain = "a::b"
                oi = p.opset_import.add()
                oi.domain, oi.version = "a::b", 1
            else:
                f.overload, f.name = "ov2", f.name + "/x"
            for g2 in _all_graphs(p):
                for n2 in (g2.node if hasattr(g2, "node") else []):
                    if (n2.domain, n2.op_type, n2.overload) == old_id:
                        n2.domain, n2.op_type, n2.overload = f.domain, f.name, f.overload
            if not f.value_info and f.output:
                vi = f.value_info.add()
                vi.name = f.output[0]
                vi.type.tensor_type.elem_type = 1
            if (c >> 5) % 2:
                p.ir_version = [7, 8, 9][(c >> 6) % 3]
        elif kind == "function_overloads" and p.functions:
            # two overloads of one function - a legal model (the identifier of a function is domain, name AND overload):
            # a copy of a function under another overload, part of the call sites retargeted to it, optionally at an IR
            # version that predates the overload field. With dup_function and function_identity alone the pair only
            # arises when both are drawn for the same variant.
            src = p.functions[c % len(p.functions)]
            f = p.functions.add()
            f.CopyFrom(src)
            f.overload = ["ov_b", "0", "ov/2"][(c >> 3) % 3]
            k = 0
            for g2 in list(_all_graphs(p)) + list(p.functions):
                for n2 in (g2.node if hasattr(g2, "node") else []):
                    if (n2.domain, n2.op_type, n2.overload) == (src.domain, src.name, src.overload):
                        k += 1
                        if (k + (c >> 8)) % 2:
                            n2.overload = f.overload
            if (c >> 5) % 2:
                p.ir_version = [7, 8, 9][(c >> 6) % 3]
        elif kind == "func_inner_shadow" and p.functions:
            # inside a function, a value of a nested body carries the name of a function input / body value, with
            # different value info on the two; optionally at an IR version that stores function value info elsewhere
            cands = []
            for f in p.functions:
                for n2 in f.node:
                    for at in n2.attribute:
                        if at.HasField("g") and at.g.node:
                            cands.append((f, at.g))
            if cands:
                f, sg = cands[c % len(cands)]
                outer_names = list(f.input) + [o for n2 in f.node for o in n2.output if o]
                inner = [n2 for n2 in sg.node if n2.output and n2.output[0]]
                if outer_names and inner:
                    tgt = inner[(c >> 3) % len(inner)]
                    old_name, new_name = tgt.output[0], outer_names[(c >> 6) % len(outer_names)]
                    tgt.output[0] = new_name
                    for n2 in sg.node:
                        for k_ in range(len(n2.input)):
                            if n2.input[k_] == old_name:
                                n2.input[k_] = new_name
                    for o in sg.output:
                        if o.name == old_name:
                            o.name = new_name
                    vi = sg.value_info.add()
                    vi.name = new_name
                    vi.type.tensor_type.elem_type = 7
                    if not any(v.name == new_name for v in f.value_info):
                        vo = f.value_info.add()
                        vo.name = new_name
                        vo.type.tensor_type.elem_type = 1
                    if (c >> 9) % 3:
                        p.ir_version = [8, 9][(c >> 11) % 2]
        elif kind == "storage_field" and g.initializer:
            # the payload moved from raw_data into a typed storage field - with the right or a wrong element count, or
            # into a field that does not belong to the declared element type, or into two fields at once
            t = g.initializer[c % len(g.initializer)]
            n_el = 1
            for d_ in t.dims:
                n_el *= d_
            how = (c >> 3) % 5
            if t.data_type == onnx.TensorProto.FLOAT and 0 < n_el < 10000:
                vals = [float(i_ % 7) for i_ in range(n_el)]
                if how != 4:
                    t.ClearField("raw_data")
                if how == 0:
                    t.float_data.extend(vals)
                elif how == 1:
                    t.float_data.extend(vals[: max(0, n_el - 1)])
                elif how == 2:
                    t.int32_data.extend([int(v_) for v_ in vals])
                elif how == 3:
                    t.data_type = [onnx.TensorProto.INT64, onnx.TensorProto.DOUBLE, onnx.TensorProto.FLOAT16, onnx.TensorProto.BOOL, onnx.TensorProto.UINT4][(c >> 6) % 5]
                    (t.int64_data if t.data_type == onnx.TensorProto.INT64 else t.double_data if t.data_type == onnx.TensorProto.DOUBLE else t.int32_data).extend([int(v_) for v_ in vals])
                else:
                    t.float_data.extend(vals)  # raw_data AND float_data
        elif kind == "dim_expr":
            # a symbolic dimension whose text is an expression that is expensive, ill-formed or hostile when EVALUATED
            # (deserialization keeps dimension texts as they are: nothing has to be parsed to load a model)
            texts = ["9**9**9**9", "2**(2**(2**(2**6)))", "(" * 3000 + "n" + ")" * 3000, "n" * 50000, "1/0", "n//0", "factorial(10**9)", "__import__('os').getpid()",
                     "n +", "", " ", "\u00e9\u2603", "-" * 4000 + "n", "max(" * 200 + "n" + ")" * 200, "n**n**n**n", "10**10**10"]
            cands = [vi for vi in list(g.input) + list(g.output) + list(g.value_info) if vi.type.HasField("tensor_type") and vi.type.tensor_type.HasField("shape") and len(vi.type.tensor_type.shape.dim)]
            if cands:
                vi = cands[c % len(cands)]
                d_ = vi.type.tensor_type.shape.dim[(c >> 3) % len(vi.type.tensor_type.shape.dim)]
                d_.dim_param = texts[(c >> 6) % len(texts)]
        elif kind == "dup_keyed":
            # the same key twice in a repeated field that ir-py reads into a mapping (opset imports under both spellings
            # of the default domain, metadata keys, attribute names): whatever wins, one more round trip must agree
            which = c % 7
            f = p.functions[(c >> 4) % len(p.functions)] if p.functions else None
            if which == 0:
                oi = p.opset_import.add()
                oi.domain, oi.version = "ai.onnx", 11 + (c >> 3) % 9
            elif which == 1 and f is not None:
                oi = f.opset_import.add()
                oi.domain, oi.version = "ai.onnx", 11 + (c >> 3) % 9
                if (c >> 8) % 2 and not any(o.domain == "" for o in f.opset_import):
                    o2 = f.opset_import.add()
                    o2.domain, o2.version = "", 12
            elif which == 2:
                oi = p.opset_import.add()
                oi.domain, oi.version = ["", "ai.onnx.ml", "ai.onnx"][(c >> 3) % 3], 3 + (c >> 5) % 5
                o2 = p.opset_import.add()
                o2.domain, o2.version = oi.domain, oi.version + 1
            elif which == 3:
                carrier = [p, g, n, f][(c >> 3) % 4]
                if carrier is not None and hasattr(carrier, "metadata_props"):
                    for val in ("first", "second"):
                        e = carrier.metadata_props.add()
                        e.key, e.value = "dupkey", val
            elif which == 4 and n is not None:
                for val in (1, 2):
                    at = n.attribute.add()
                    at.name, at.type, at.i = "dup_attr", onnx.AttributeProto.INT, val
            elif which == 5 and n is not None:
                n.domain = "ai.onnx"
            elif which == 6 and f is not None:
                f.attribute.append("alpha")
                f.attribute.append("alpha")
                ap = f.attribute_proto.add()
                ap.name, ap.type, ap.f = "alpha", onnx.AttributeProto.FLOAT, 2.0
        elif kind == "dup_value_info" and g.value_info:
            vi = g.value_info.add()
            vi.CopyFrom(g.value_info[0])
            vi.type.tensor_type.elem_type = 7
        elif kind == "tensor_metadata" and g.initializer:
            t = g.initializer[c % len(g.initializer)]
            for _ in range(1 + c % 2):
                e = t.metadata_props.add()
                e.key, e.value = "tk", "tv2"
        elif kind == "missing_opset":
            del p.opset_import[:]
            if c % 2:
                oi = p.opset_import.add()
                oi.domain = ""
                oi.version = -1
        elif kind == "ref_attr" and n is not None:
            at = n.attribute.add()
            at.name = "r"
            at.ref_attr_name = "missing"
            at.type = onnx.AttributeProto.INT
        elif kind == "sparse":
            sp = g.sparse_initializer.add()
            sp.values.name = "sp"
            sp.values.data_type = 1
            sp.values.dims.append(2)
            sp.dims.append(5)
        elif kind == "quant":
            q = g.quantization_annotation.add()
            # on a name that exists (graph input, initializer, node output) or on none; twice for the same name
            real = [vi.name for vi in g.input] + [t.name for t in g.initializer] + [o for n2 in g.node for o in n2.output if o]
            q.tensor_name = real[c % len(real)] if (real and c % 4) else "no_such"
            kv = q.quant_parameter_tensor_names.add()
            kv.key, kv.value = "SCALE_TENSOR", (real[(c >> 3) % len(real)] if (real and (c >> 2) % 2) else "missing")
            if (c >> 6) % 3 == 0:
                q2 = g.quantization_annotation.add()
                q2.CopyFrom(q)
                q2.quant_parameter_tensor_names[0].value = "other"
        elif kind in ("sub_output_outer", "sub_input_outer", "sub_init_outer"):
            # a nested graph declares an output / input / initializer under the name of a value of an enclosing graph
            subs = [x for x in graphs if x is not p.graph]
            if not subs:
                continue
            sg = subs[a % len(subs)]
            outer_names = [o for n2 in p.graph.node for o in n2.output if o] + [i.name for i in p.graph.input if i.name]
            if not outer_names:
                continue
            nm = outer_names[c % len(outer_names)]
            if kind == "sub_output_outer":
                if sg.output and c % 2:
                    sg.output[0].name = nm
                else:
                    vi = sg.output.add()
                    vi.name = nm
                    vi.type.tensor_type.elem_type = 7
            elif kind == "sub_input_outer":
                vi = sg.input.add()
                vi.name = nm
            else:
                t = sg.initializer.add()
                t.name = nm
                t.data_type = 1
                t.dims.append(1)
                t.raw_data = b"\x00\x00\x80?"
        elif kind == "sibling_scope":
            # a node with two bodies (If, or a list-of-graphs attribute): the LATER body reads a name that only the
            # EARLIER one defines - not visible there, so it is a dangling name, never the sibling's value
            done_ = False
            for n2 in list(g.node)[::-1] + [x for gg in graphs for x in gg.node]:
                bodies_ = [a2.g for a2 in n2.attribute if a2.HasField("g")] + [sg2 for a2 in n2.attribute for sg2 in a2.graphs]
                if len(bodies_) < 2:
                    continue
                for bi in range(1, len(bodies_)):
                    earlier = [o for m2 in bodies_[bi - 1].node for o in m2.output if o]
                    later_nodes = [m2 for m2 in bodies_[bi].node if m2.input]
                    if earlier and later_nodes:
                        tgt = later_nodes[c % len(later_nodes)]
                        tgt.input[a % len(tgt.input)] = earlier[c % len(earlier)]
                        done_ = True
                        break
                if done_:
                    break
        elif kind == "bad_utf8_attr" and n is not None:
            # byte strings that are not UTF-8 where text is expected: a STRINGS / STRING attribute (bytes fields in the
            # proto), on a node or as the default of a function attribute
            bad = [b"caf\xe9", b"\xff\xfe", b"ok", b"\xed\xb3\xbf", b"\x80"]
            at = n.attribute.add()
            at.name = "texts" if c % 2 else "text"
            if c % 2:
                at.type = onnx.AttributeProto.STRINGS
                at.strings.extend([bad[(a + i) % len(bad)] for i in range(1 + c % 3)])
            else:
                at.type = onnx.AttributeProto.STRING
                at.s = bad[a % len(bad)]
            if p.functions and c % 5 == 0:
                fa = p.functions[a % len(p.functions)].attribute_proto.add()
                fa.CopyFrom(at)
                fa.name = "ftexts"
        elif kind == "string_tensor" and g.initializer:
            t = g.initializer.add()
            t.name = "strs"
            t.data_type = onnx.TensorProto.STRING
            t.dims.append(2)
            t.string_data.append(b"\xff\xfe")
            if c % 2:
                t.string_data.append(b"ok")


# ---- birth epochs: every Value / Node created by ir-py is stamped with the number of the deserialization call
# that was running, so that an IR reaching objects of an EARLIER call (state leaking between calls) is recognised
_EPOCH = {"n": 0}
_BORN: "weakref.WeakKeyDictionary" = None  # type: ignore[assignment]


def _install_birth_stamps() -> None:
    global _BORN
    if _BORN is not None:
        return
    import weakref

    import onnx_ir._core as _c

    _BORN = weakref.WeakKeyDictionary()
    for cls in (_c.Value, _c.Node):
        orig = cls.__init__

        def stamped(self, *a, __orig=orig, **k):
            _BORN[self] = _EPOCH["n"]
            return __orig(self, *a, **k)

        cls.__init__ = stamped


def _inspect_tensors(model) -> int:
    n = 0
    graphs = list(model.graphs())
    for f in model.functions.values():
        graphs.append(f.graph)
    for g in graphs:
        for v in g.initializers.values():
            t = v.const_value
            if t is None:
                continue
            _ = (t.name, t.dtype, t.shape, t.size, t.nbytes)
            repr(t)
            n += 1
    for node in model.graph.all_nodes():
        for a in node.attributes.values():
            try:
                if a.type == ir.AttributeType.TENSOR and a.value is not None:
                    t = a.value
                    _ = (t.name, t.dtype, t.shape, t.size, t.nbytes)
                    repr(t)
                    n += 1
            except Exception:  # noqa: BLE001
                pass
    return n


_BASE_PATHS = ("", "rel/base", "/abs/nowhere/base", "./models/../weights", "~", "base\x00dir")


def _probe_tensor_entry_point(proto, inc) -> None:
    """The documented single-tensor entry point, with a base directory: every external tensor of the input."""
    import pathlib

    def graphs_of(g, depth=0):
        yield g
        if depth < 4:
            for n in g.node:
                for a in n.attribute:
                    if a.HasField("g"):
                        yield from graphs_of(a.g, depth + 1)
                    for sg in a.graphs:
                        yield from graphs_of(sg, depth + 1)

    k = 0
    for g in graphs_of(proto.graph):
        for tp in g.initializer:
            if tp.data_location != onnx.TensorProto.EXTERNAL:
                continue
            k += 1
            if k > 6:
                return
            for j, bp in enumerate(_BASE_PATHS):
                base = pathlib.Path(bp) if (k + j) % 3 == 0 and "\x00" not in bp else bp
                try:
                    t = ir.serde.deserialize_tensor(tp, base)
                    _ = (t.name, t.dtype, t.shape, t.size, t.nbytes)
                    repr(t)
                    inc("tensor_entry_point_with_base_path_returned")
                except Exception:  # noqa: BLE001
                    inc("tensor_entry_point_with_base_path_raised")


def check_one(proto_bytes: bytes, scratch: str, seam: fsseam.FsSeam, use_load: bool, inc) -> dict | None:
    """All C17 oracles for one damaged input.  Returns a violation dict or None."""
    try:
        proto = onnx.ModelProto.FromString(proto_bytes)
    except DecodeError:
        inc("rejected_by_protobuf_parser")
        return None
    except Exception:  # noqa: BLE001
        inc("rejected_by_protobuf_parser")
        return None
    inc("parsed")
    model_file = os.path.join(scratch, "m.onnx")
    if use_load:
        with open(model_file, "wb") as f:
            f.write(proto_bytes)
    seam.reads.clear()
    seam.effects.clear()
    _audit["events"].clear()
    model = None
    raised = None
    signal.setitimer(signal.ITIMER_REAL, 20.0)
    _audit["on"] = True
    _install_birth_stamps()
    _EPOCH["n"] += 1
    epoch = _EPOCH["n"]
    try:
        try:
            if use_load:
                model = _io.load(model_file)
            else:
                model = ir.from_proto(proto)
        except _Hang:
            return {"clause": "does-not-terminate", "detail": "deserialization did not finish within 20 s", "key": "does-not-terminate"}
        except Exception as e:  # noqa: BLE001 - RecursionError included
            raised = e
        except BaseException as e:  # noqa: BLE001
            if isinstance(e, (KeyboardInterrupt, SystemExit)):
                raise
            return {"clause": "non-exception-escaped", "detail": f"deserialization raised {type(e).__name__}, which is not an Exception", "key": f"non-exception-escaped|{type(e).__name__}"}
        n_t = 0
        if model is not None:
            try:
                n_t = _inspect_tensors(model)
            except _Hang:
                return {"clause": "does-not-terminate", "detail": "tensor inspection did not finish within 20 s", "key": "does-not-terminate"}
            except Exception as e:  # noqa: BLE001
                inc("tensor_inspection_raised")
                _ = e
        try:
            _probe_tensor_entry_point(proto, inc)
        except _Hang:
            return {"clause": "does-not-terminate", "detail": "deserialize_tensor(proto, base_path) did not finish within 20 s", "key": "does-not-terminate"}
    finally:
        _audit["on"] = False
        signal.setitimer(signal.ITIMER_REAL, 0)
    inc("tensors_inspected", n_t)
    # ---- (d) no file access
    touched = [ev for ev in _audit["events"] if not (use_load and ev[1] and os.path.abspath(ev[1]) == model_file)]
    seam_reads = [r for r in seam.reads if not (use_load and r[0] in ("onnx.load",))]
    seam_reads = [r for r in seam_reads if not (use_load and r[1] == "m.onnx")]
    if touched or seam_reads or seam.effects:
        what = (touched or seam_reads or seam.effects)[0]
        return {"clause": "file-access-during-deserialization", "detail": f"{'load' if use_load else 'from_proto'} / tensor inspection touched the file system: {what!r} (+{len(touched) + len(seam_reads) - 1} more)", "key": f"file-access-during-deserialization|{what[0]}"}
    if raised is not None:
        inc("outcome_raised")
        inc("exc_" + type(raised).__name__)
        return None
    inc("outcome_returned")
    # ---- (b) consistent IR
    w = World()
    w.reg(model)
    signal.setitimer(signal.ITIMER_REAL, 20.0)
    try:
        try:
            inv = invariants.check(w)
        except _Hang:
            return {"clause": "does-not-terminate", "detail": "walking the returned IR did not finish within 20 s", "key": "does-not-terminate|walk"}
        except RecursionError:
            inv = None
            inc("ir_walk_recursion_error")
        except Exception as e:  # noqa: BLE001
            inv = {"clause": "accessor-raised", "detail": f"{type(e).__name__}: {e}"}
        if inv is None:
            # ownership as documented for Value.graph: a value that is an input/output/initializer of graph G is owned by G,
            # a node output is owned by its node's graph - an IR built from a proto must not make these two disagree
            for v in w.values:
                p_ = v.producer()
                if p_ is not None and p_.graph is not None and (v.is_graph_input() or v.is_graph_output() or v.is_initializer()) and v.graph is not p_.graph:
                    inv = {"clause": "owner-conflict", "detail": f"value {v.name!r} is an input/output/initializer of graph {getattr(v.graph, 'name', None)!r} but is produced by node {p_.name!r} of graph {getattr(p_.graph, 'name', None)!r}"}
                    break
        if inv is None:
            # scoping: a node reads values of its own graph or of a graph that ENCLOSES it - never of a sibling body or
            # of a body nested elsewhere (a name that is not visible becomes a value owned by no graph)
            parent: dict = {}
            tops_ = [model.graph] + [f.graph for f in model.functions.values()]
            todo_ = list(tops_)
            seen_g = set()
            while todo_:
                g_ = todo_.pop()
                if id(g_) in seen_g:
                    continue
                seen_g.add(id(g_))
                for n_ in g_:
                    for a_ in n_.attributes.values():
                        if not isinstance(a_, ir.Attr) or a_.is_ref() or a_.value is None:
                            continue
                        subs_ = [a_.value] if a_.type == ir.AttributeType.GRAPH else (list(a_.value) if a_.type == ir.AttributeType.GRAPHS else [])
                        for sg_ in subs_:
                            parent.setdefault(id(sg_), g_)
                            todo_.append(sg_)
            for g_id in list(seen_g):
                pass
            def _encloses(outer, inner) -> bool:
                hops = 0
                while inner is not None and hops < 64:
                    if inner is outer:
                        return True
                    inner = parent.get(id(inner))
                    hops += 1
                return False
            for n_ in w.nodes:
                g_ = n_.graph
                if g_ is None or id(g_) not in seen_g:
                    continue
                for v_ in n_.inputs:
                    if v_ is None:
                        continue
                    gv = v_.graph
                    if gv is not None and id(gv) in seen_g and not _encloses(gv, g_):
                        inv = {"clause": "value-from-foreign-scope", "detail": f"node {n_.name!r} of graph {getattr(g_, 'name', None)!r} reads value {v_.name!r}, which belongs to graph {getattr(gv, 'name', None)!r} - neither its own graph nor one that encloses it"}
                        break
                if inv is not None:
                    break
            inc("scopes_checked")
        if inv is None:
            # deserialization is a function of the proto alone: nothing reachable from the result predates this call
            _EPOCH["n"] += 1
            for kind_, objs in (("value", w.values), ("node", w.nodes)):
                for o in objs:
                    b = _BORN.get(o)
                    if b is not None and b != epoch:
                        inv = {"clause": "reaches-objects-of-an-earlier-call", "detail": f"{kind_} {getattr(o, 'name', None)!r} reachable from the returned IR was created by an earlier deserialization call (epoch {b}, this call {epoch})"}
                        break
                if inv is not None:
                    break
            inc("birth_epochs_checked")
        if inv is not None:
            return {"clause": "inconsistent-ir-returned", "detail": f"from_proto returned an IR that violates {inv['clause']}: {inv['detail']}", "key": f"inconsistent-ir-returned|{inv['clause']}"}
        # ---- (c) serialization raises or reaches a fix point
        try:
            p1 = ir.to_proto(model)
        except _Hang:
            return {"clause": "does-not-terminate", "detail": "to_proto of the returned IR did not finish within 20 s", "key": "does-not-terminate|to_proto"}
        except Exception:  # noqa: BLE001
            inc("reserialization_raised")
            return None
        b1 = p1.SerializeToString(deterministic=True)
        try:
            m2 = ir.from_proto(onnx.ModelProto.FromString(b1))
            b2 = ir.to_proto(m2).SerializeToString(deterministic=True)
        except _Hang:
            return {"clause": "does-not-terminate", "detail": "second round trip did not finish within 20 s", "key": "does-not-terminate|fixpoint"}
        except Exception as e:  # noqa: BLE001
            root = e
            hops = 0
            while root.__cause__ is not None and hops < 20:
                root, hops = root.__cause__, hops + 1
            import re as _re

            msg = _re.sub(r"\d+", "N", str(root))[:50]
            return {"clause": "serialized-proto-does-not-round-trip", "detail": f"to_proto(ir) succeeded but from_proto/to_proto of that proto raised {type(e).__name__} (root cause {type(root).__name__}: {str(root)[:200]})", "key": f"serialized-proto-does-not-round-trip|{type(root).__name__}|{msg}"}
        inc("fixpoint_checked")
        if b1 != b2:
            # documented normalisation (see C02): value-info is added for initializers
            pa, pb = onnx.ModelProto.FromString(b1), onnx.ModelProto.FromString(b2)
            for pr in (pa, pb):
                for g in _all_graphs(pr):
                    init_names = {t.name for t in g.initializer}
                    keep = [vi for vi in g.value_info if vi.name not in init_names]
                    if len(keep) != len(g.value_info):
                        copies = [copy.deepcopy(vi) for vi in keep]
                        del g.value_info[:]
                        g.value_info.extend(copies)
            if pa.SerializeToString(deterministic=True) == pb.SerializeToString(deterministic=True):
                inc("fixpoint_modulo_initializer_value_info")
                return None
            field = "?"
            for fd in pa.DESCRIPTOR.fields:
                if getattr(pa, fd.name) != getattr(pb, fd.name):
                    field = fd.name
                    break
            if field == "graph":
                for fd in pa.graph.DESCRIPTOR.fields:
                    if getattr(pa.graph, fd.name) != getattr(pb.graph, fd.name):
                        field = "graph." + fd.name
                        break
            return {"clause": "serialization-not-a-fix-point", "detail": f"P1 = to_proto(ir) but to_proto(from_proto(P1)) != P1 (first differing field: {field})", "key": f"serialization-not-a-fix-point|{field}"}
    finally:
        signal.setitimer(signal.ITIMER_REAL, 0)
    return None


def check_one_forked(proto_bytes: bytes, scratch: str, seam, use_load: bool, inc, wall: float = 12.0) -> dict | None:
    """check_one in a forked child with a hard deadline enforced from outside (a computation inside C code - a huge
    integer power, say - cannot be interrupted by a signal handler of the same process)."""
    import select

    r_fd, w_fd = os.pipe()
    pid = os.fork()
    if pid == 0:
        code = 0
        try:
            os.close(r_fd)
            v = check_one(proto_bytes, scratch, seam, use_load, lambda *a, **k: None)
            os.write(w_fd, json.dumps(v, default=str).encode())
        except BaseException:  # noqa: BLE001
            code = 3
        finally:
            os._exit(code)
    os.close(w_fd)
    inc("checked_in_forked_child_with_deadline")
    buf = b""
    deadline = time.monotonic() + wall
    timed_out = False
    while True:
        left = deadline - time.monotonic()
        if left <= 0:
            timed_out = True
            break
        ready, _, _ = select.select([r_fd], [], [], left)
        if not ready:
            timed_out = True
            break
        chunk = os.read(r_fd, 65536)
        if not chunk:
            break
        buf += chunk
    os.close(r_fd)
    if timed_out:
        os.kill(pid, signal.SIGKILL)
        os.waitpid(pid, 0)
        return {"clause": "does-not-terminate", "detail": f"from_proto / to_proto / tensor inspection did not finish within {wall:.0f} s (child process killed)", "key": "does-not-terminate|forked"}
    _pid, status = os.waitpid(pid, 0)
    if not buf:
        if os.WIFSIGNALED(status) or os.WEXITSTATUS(status) != 0:
            return {"clause": "deserialization-crashed-the-process", "detail": f"the child process ended with status {status} without a verdict", "key": "deserialization-crashed-the-process"}
        return None
    return json.loads(buf.decode())


def run_case(case: dict) -> dict:
    stats: dict = {}
    res = {"violation": None, "violations": [], "error": None, "stats": stats, "steps": 0, "distinct": [], "states": [], "case": case}

    def inc(k, n=1):
        stats[k] = stats.get(k, 0) + n

    base = base_proto(case)
    base_bytes = base.SerializeToString(deterministic=True)
    other_case = dict(case, model_seed=case["model_seed"] ^ 0x5555)
    other_bytes = base_proto(other_case).SerializeToString(deterministic=True)
    scratch = workload.new_scratch("c17")
    old_cwd = os.getcwd()
    trail = []
    try:
        for rel in ("canary.bin", "second.bin", "data/w0.bin", "data/w2.bin"):
            pth = os.path.join(scratch, rel)
            os.makedirs(os.path.dirname(pth), exist_ok=True)
            with open(pth, "wb") as f:
                f.write(b"CANARY" * 16)
        os.chdir(scratch)
        seam = fsseam.FsSeam(scratch)
        seam.track_reads = True
        rb = fsseam.Rebind()
        if case.get("debug"):
            inc("runs_with_onnx_ir_DEBUG")
        with rb:
            rb.set(ir, "DEBUG", bool(case.get("debug")))
            fsseam.install_fs(rb, seam, external_data=False, core=True, io_mod=True, safetensors=False)
            for vi, var in enumerate(case["variants"]):
                if var["level"] == "bytes":
                    data = damage_bytes(base_bytes, var["ops"], other_bytes)
                else:
                    p = onnx.ModelProto()
                    p.CopyFrom(base)
                    try:
                        damage_fields(p, var["ops"])
                        data = p.SerializeToString(deterministic=True)
                    except Exception as e:  # noqa: BLE001 - protobuf refusing a mutation is not ir-py
                        inc("field_damage_not_encodable")
                        _ = e
                        continue
                inc("variants")
                for o in var["ops"]:
                    inc("damage_" + o[0])
                if any(o[0] == "dim_expr" for o in var["ops"]):
                    v = check_one_forked(data, scratch, seam, bool(var.get("load")), inc)
                else:
                    v = check_one(data, scratch, seam, bool(var.get("load")), inc)
                res["steps"] += 1
                trail.append((vi, v["clause"] if v else None))
                if data != base_bytes:
                    res["distinct"].append(digest(data))
                if v is not None:
                    v["variant"] = vi
                    res["violations"].append(v)
                    if res["violation"] is None:
                        res["violation"] = v
                        c = copy.deepcopy(case)
                        # a violation that depends on what was deserialized before keeps its history
                        c["variants"] = case["variants"][: vi + 1] if "earlier-call" in v.get("key", "") else [var]
                        res["case"] = c
                    if len(res["violations"]) >= 6:
                        break
    finally:
        os.chdir(old_cwd)
        workload.rm_scratch(scratch)
    res["event_digest"] = digest(trail)
    res["sample"] = {"params": {k: v for k, v in case["params"].items() if k in ("n_nodes", "n_functions", "depth", "ir_version")}, "variants": [[o[0] for o in v["ops"]] for v in case["variants"][:8]]}
    return res


def shrink_candidates(case: dict, violation: dict):
    if len(case["variants"]) > 1 and "earlier-call" in (violation or {}).get("key", ""):
        # history-dependent: drop earlier variants one at a time, keep the failing (last) one
        n = len(case["variants"])
        for width in (8, 4, 2, 1):
            for lo in range(0, n - 1, width):
                c = copy.deepcopy(case)
                c["variants"] = case["variants"][:lo] + case["variants"][min(lo + width, n - 1) :]
                if len(c["variants"]) < n:
                    yield c
        return
    if len(case["variants"]) > 1:
        for v in case["variants"]:
            c = copy.deepcopy(case)
            c["variants"] = [v]
            yield c
        return
    var = case["variants"][0]
    for i in range(len(var["ops"])):
        if len(var["ops"]) > 1:
            c = copy.deepcopy(case)
            c["variants"][0]["ops"] = var["ops"][:i] + var["ops"][i + 1 :]
            yield c
    if var.get("load"):
        c = copy.deepcopy(case)
        c["variants"][0]["load"] = False
        yield c
    for key, vals in (("n_nodes", [1, 2, 3]), ("n_functions", [0]), ("depth", [0, 1]), ("n_inits", [1]), ("metadata", [False])):
        for val in vals:
            cur = case["params"].get(key)
            if cur != val and (isinstance(val, bool) or val < cur):
                c = copy.deepcopy(case)
                c["params"][key] = val
                yield c
    for flag in ("devices", "external"):
        if case.get(flag):
            c = copy.deepcopy(case)
            c[flag] = False
            yield c


def finding_key(case: dict, violation: dict) -> str:
    return violation.get("key") or violation.get("clause")


def check_reach(agg: dict, tier: str):
    st = agg["stats"]
    need = ["parsed", "rejected_by_protobuf_parser", "outcome_raised", "outcome_returned", "fixpoint_checked", "tensors_inspected"] + ["damage_" + k for k in BYTE_OPS + FIELD_OPS]
    missing = [k for k in need if not st.get(k)]
    return missing if agg["runs"] > 60 else []


def evidence_extra(agg: dict, tier: str) -> dict:
    st = agg["stats"]
    return {"evaluations": st.get("variants", 0), "base_models": agg["runs"], "parsed_by_protobuf": st.get("parsed", 0), "rejected_by_protobuf_parser": st.get("rejected_by_protobuf_parser", 0)}


_ = _core
