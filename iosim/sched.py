"""Baton-passing deterministic scheduler for real threads.

Every simulated thread is a real ``threading.Thread`` with a private real
semaphore; exactly one holds the baton.  The running thread decides, from a
seeded PRNG (or an explicit recorded choice list), who runs next at every yield
point.  There is no scheduler thread and no real blocking primitive inside the
simulated code, so the only real waits are baton hand-offs.

Deadlock is exact: a yield with an empty runnable set while some thread is
unfinished.  On deadlock or oracle failure the run enters *abort mode*: every
parked thread is released and raises :class:`SimAbort` (a ``BaseException``)
from the primitive it is parked in; primitives stop blocking.
"""

from __future__ import annotations

import threading as _real_threading
from typing import Callable


class SimAbort(BaseException):
    """Raised inside simulated threads to unwind them when a run is aborted."""


class HarnessError(Exception):
    """The simulator itself failed (not a verdict about the code under test)."""


class SimThread:
    __slots__ = ("idx", "name", "sem", "finished", "pred", "tag", "real", "ident", "role")

    def __init__(self, idx: int, name: str, role: str = "thread") -> None:
        self.idx = idx
        self.name = name
        self.sem = _real_threading.Semaphore(0)
        self.finished = False
        self.pred: Callable[[], bool] | None = None
        self.tag = ""
        self.real: _real_threading.Thread | None = None
        self.ident: int | None = None
        self.role = role

    def __repr__(self) -> str:  # pragma: no cover
        return f"<T{self.idx} {self.name} fin={self.finished} tag={self.tag}>"


class Scheduler:
    """Seeded cooperative scheduler.

    choices: explicit list of recorded decisions to replay.  Each decision is
        an index into the sorted runnable list, or ``-1`` meaning "keep running
        the current thread if it is runnable, otherwise the lowest index".
        When the list is exhausted the PRNG takes over (or ``-1`` when
        ``choices_only``).
    stickiness: probability of keeping the current thread when it is runnable
        (drawn before the uniform choice) — varies run length between switches.
    """

    def __init__(
        self,
        rng,
        *,
        choices: list[int] | None = None,
        choices_only: bool = False,
        stickiness: float = 0.0,
        max_steps: int = 200_000,
        on_yield: Callable[[str], None] | None = None,
    ) -> None:
        self.rng = rng
        self.replay_choices = list(choices) if choices is not None else None
        self.choices_only = choices_only
        self.stickiness = stickiness
        self.max_steps = max_steps
        self.on_yield = on_yield
        self.threads: list[SimThread] = []
        self.current: SimThread | None = None
        self.trace: list[int] = []
        self.events: list[tuple] = []
        self.steps = 0
        self.switches = 0
        self.aborting = False
        self.failure: dict | None = None
        self._tls = _real_threading.local()
        self.active = False
        self.idle_worker_preds: set[int] = set()  # thread idx of idle pool workers
        self.state_probe: Callable[[], tuple] | None = None
        self.states: set = set()

    # ------------------------------------------------------------------ setup
    def attach_main(self) -> SimThread:
        t = SimThread(0, "main", role="main")
        t.ident = _real_threading.get_ident()
        self.threads.append(t)
        self.current = t
        self._tls.me = t
        self.active = True
        return t

    def me(self) -> SimThread | None:
        return getattr(self._tls, "me", None)

    def is_current_thread(self) -> bool:
        cur = self.current
        return cur is not None and cur.ident == _real_threading.get_ident()

    def log(self, *event) -> None:
        self.events.append(event)

    # --------------------------------------------------------------- choosing
    def _runnable(self) -> list[SimThread]:
        out = []
        for t in self.threads:
            if t.finished:
                continue
            p = t.pred
            if p is None or p():
                out.append(t)
        return out

    def _choose(self, runnable: list[SimThread], me: SimThread | None) -> SimThread:
        n = len(runnable)
        pos_me = -1
        if me is not None:
            for i, t in enumerate(runnable):
                if t is me:
                    pos_me = i
                    break
        c: int
        if self.replay_choices is not None and len(self.trace) < len(self.replay_choices):
            c = self.replay_choices[len(self.trace)]
        elif self.replay_choices is not None and self.choices_only:
            c = -1
        else:
            if n == 1:
                c = 0
            elif pos_me >= 0 and self.stickiness > 0 and self.rng.random() < self.stickiness:
                c = pos_me
            else:
                c = self.rng.randrange(n)
        if c < 0:
            chosen = runnable[pos_me] if pos_me >= 0 else runnable[0]
            self.trace.append(-1)
        else:
            chosen = runnable[c % n]
            # record stay-on-current as -1 so that shrinking towards -1 is monotone
            self.trace.append(c % n)
        return chosen

    # ---------------------------------------------------------------- running
    def _handoff(self, me: SimThread, nxt: SimThread) -> None:
        self.switches += 1
        self.current = nxt
        nxt.sem.release()
        me.sem.acquire()
        if self.aborting:
            raise SimAbort()

    def _pre(self, tag: str) -> SimThread:
        me = self.me()
        if me is None:
            raise HarnessError(f"yield from a thread unknown to the scheduler at {tag}")
        if self.aborting:
            raise SimAbort()
        if self.current is not me:
            raise HarnessError(f"thread {me} yields at {tag} without holding the baton")
        self.steps += 1
        if self.steps > self.max_steps:
            self.abort({"clause": "step-cap", "detail": f"more than {self.max_steps} scheduler steps"})
        if self.state_probe is not None:
            self.states.add(self.state_probe())
        if self.on_yield is not None:
            self.on_yield(tag)
        return me

    def yield_point(self, tag: str) -> None:
        """Offer the baton to any runnable thread (possibly the caller)."""
        if not self.active:
            return
        me = self._pre(tag)
        me.tag = tag
        runnable = self._runnable()
        nxt = self._choose(runnable, me)
        if nxt is not me:
            self._handoff(me, nxt)

    def block(self, pred: Callable[[], bool], tag: str) -> None:
        """Park the caller until ``pred()`` holds (level-triggered)."""
        if not self.active:
            if not pred():
                raise HarnessError(f"blocking at {tag} outside a simulation")
            return
        me = self._pre(tag)
        me.tag = tag
        me.pred = pred
        try:
            while not pred():
                runnable = self._runnable()
                if not runnable:
                    self._deadlock(tag)
                nxt = self._choose(runnable, me)
                if nxt is me:  # pragma: no cover - me is not runnable here
                    continue
                self._handoff(me, nxt)
        finally:
            me.pred = None

    def _deadlock(self, tag: str) -> None:
        waiting = [(t.idx, t.name, t.tag) for t in self.threads if not t.finished]
        self.abort({"clause": "deadlock", "detail": f"no runnable thread at {tag}", "waiting": waiting})

    def abort(self, failure: dict) -> None:
        """Record the first failure, release every parked thread, unwind the caller."""
        if self.failure is None:
            self.failure = failure
        if not self.aborting:
            self.aborting = True
            me = self.me()
            for t in self.threads:
                if t is not me and not t.finished:
                    t.sem.release()
        raise SimAbort()

    # ---------------------------------------------------------------- threads
    def spawn(self, fn: Callable[[], None], name: str, role: str = "thread") -> SimThread:
        t = SimThread(len(self.threads), name, role=role)
        self.threads.append(t)

        def _run() -> None:
            self._tls.me = t
            t.ident = _real_threading.get_ident()
            t.sem.acquire()
            try:
                if not self.aborting:
                    fn()
            except SimAbort:
                pass
            except BaseException as e:  # noqa: BLE001 - reported as harness error
                if self.failure is None:
                    self.failure = {"clause": "harness", "detail": f"uncaught {type(e).__name__} in {name}: {e}"}
            finally:
                self._finish(t)

        t.real = _real_threading.Thread(target=_run, name=f"sim-{name}", daemon=True)
        t.real.start()
        return t

    def _finish(self, t: SimThread) -> None:
        t.finished = True
        t.pred = None
        if self.aborting:
            return
        runnable = self._runnable()
        if not runnable:
            # main is never finished while the simulation is live
            if self.failure is None:
                waiting = [(x.idx, x.name, x.tag) for x in self.threads if not x.finished]
                self.failure = {"clause": "deadlock", "detail": "no runnable thread at thread exit", "waiting": waiting}
            self.aborting = True
            for x in self.threads:
                if x is not t and not x.finished:
                    x.sem.release()
            return
        nxt = self._choose(runnable, None)
        self.current = nxt
        nxt.sem.release()

    def unfinished(self) -> list[SimThread]:
        return [t for t in self.threads[1:] if not t.finished]

    def drain(self, on_stuck: Callable[[], bool] | None = None) -> None:
        """Let every other thread run to completion (called by main).

        ``on_stuck`` is consulted when nobody is runnable; it may change the
        world (e.g. mark abandoned executors as shut down) and return True to
        retry instead of reporting a deadlock.
        """
        if self.aborting or not self.active:
            return
        me = self.me()
        assert me is not None and me.idx == 0
        while self.unfinished():
            pred = lambda: not self.unfinished()  # noqa: E731
            me.pred = pred
            try:
                runnable = self._runnable()
                if not runnable:
                    if on_stuck is not None and on_stuck():
                        continue
                    self._deadlock("drain")
                nxt = self._choose(runnable, me)
                if nxt is not me:
                    self._handoff(me, nxt)
            finally:
                me.pred = None

    def close(self, join_timeout: float = 10.0) -> None:
        """End the simulation; join real threads.  Raises HarnessError if one is stuck."""
        self.active = False
        if self.unfinished():
            # release anything still parked (only possible in abort mode or after failures)
            self.aborting = True
            for t in self.threads[1:]:
                if not t.finished:
                    t.sem.release()
        stuck = []
        for t in self.threads[1:]:
            if t.real is not None:
                t.real.join(join_timeout)
                if t.real.is_alive():
                    stuck.append(t.name)
        if stuck:
            raise HarnessError(f"threads failed to unwind: {stuck}")
