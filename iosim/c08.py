"""C08 — an interrupted external-data save never damages an existing data file.

Per sampled workload: a fault-free run numbers the mutating file-system
effects and evaluates the crash oracle at every boundary between two of them;
then every effect is failed once with every errno legal for it, every tensor
position and callback call is made to raise (fault enumeration, exhaustive over
single faults for that workload).  See DESIGN.md section 5 (C08).
"""

from __future__ import annotations

import copy
import logging
import os
import signal
import stat
import traceback

import onnx_ir as ir
import onnx_ir.external_data as _ed

from iosim import fsseam, simthreading, tensors, workload
from iosim.sched import HarnessError, SimAbort
from simcore import knobs as _knobs
from simcore.prng import Streams, digest

logging.getLogger("onnx_ir").setLevel(logging.ERROR)

PROPERTY = "C08"
LEVEL = "fault_enumeration"
TIERS = {
    "quick": {"max_runs": 400, "optimize_runs": 80, "wall": 420, "optimize_wall": 180, "chunk": 4, "shrink_budget": 200, "shrink_wall": 60, "per_run_cap": 300.0},
    "thorough": {"wall": 900, "optimize_wall": 120, "chunk": 10, "shrink_budget": 500, "shrink_wall": 240, "per_run_cap": 600.0},
}
RULE = (
    "each evaluation = one execution of a save (scenario: destination absent / foreign file / re-save over the file the model reads from / "
    "through a symlink / sharded next to pre-existing files; serial or 2-3 simulated workers) with one fault plan; for every sampled workload "
    "the plans are: none (all N+1 crash points checked in-run), every faultable effect k x every errno legal for it (+ short writes), every "
    "tensor x every piece position raising, every callback call raising, and in parallel runs a few double faults; distinct = distinct "
    "(workload digest, fault plan); non-trivial = the plan's fault actually fired or it is the crash-point run with >= 3 effects"
)
ASSUMPTIONS = [
    "crash model is kill -9: what a fresh descriptor reads at a boundary is what survives (no power-loss reordering; the code has no fsync and the statement says 'the process dying'); the equivalence is cross-checked on sampled boundaries of serial single-file saves by forking a child that really dies (os._exit) at the boundary",
    "cleanup effects (remove, rmdir) are never failed: a file system that refuses deletion makes leftovers unavoidable",
    "'complete new bytes' = bytes a fault-free serial save of the same workload produces in a sibling directory",
    "parallel runs: effect order depends on the schedule, so (schedule seed, k) pairs are enumerated for one schedule per workload",
    "Windows-only behaviour (mmap blocking replace) is not simulated",
]
REAL_STUB = {
    "real": ["onnx_ir.external_data (all)", "onnx_ir._io.save", "onnx_ir._core tensors incl. ExternalTensor (real mmap / copy_file_range)", "onnx_ir.serde", "onnx.save", "tmpfs file system incl. rename/symlink semantics"],
    "stub": ["tempfile.mkdtemp naming", "threading/concurrent.futures primitives in parallel runs", "injected OSError at the interposed call (the real call is skipped)"],
    "harness_extension_points": ["instrumented tensors writing in pieces", "progress callback"],
}
EXHAUSTIVE = {"quick": False, "thorough": False}


# ---------------------------------------------------------------- generation
def gen_case(run_seed: int, tier: str, index: int = 0) -> dict:
    st = Streams(run_seed)
    r = st.rng("config")
    scenario = r.choices(["absent", "foreign", "self", "symlink_in", "symlink_out", "sharded", "hardlink"], [8, 18, 34, 10, 10, 20, 6])[0]
    dest = r.choice(["w.data", "w.data", "model.fp16.data", "sub/w.bin", "w"])
    n = r.choice([1, 2, 2, 3, 3, 4, 5, 6])
    thr = r.choice([0, 0, 0, 8, 16])
    specs = []
    ext_files = {"other": {"location": "other.data", "dir": "m", "lead": r.choice([0, 4])}}
    if r.random() < 0.06:
        ext_files["other"]["cut"] = r.choice([1, 3, 8, 40])  # the file is shorter than the tensors stored in it claim
    pre_files: dict = {}
    pre_dirs = ["m/sub", "out"]
    pre_symlinks: dict = {}
    pre_hardlinks: dict = {}
    pre_modes: dict = {}
    dest_key = None
    if scenario == "self":
        ext_files["dest"] = {"location": dest, "dir": "m", "lead": r.choice([0, 0, 7]), "tail": r.choice([0, 0, 5]), "mode": r.choice([None, 0o600, 0o644, 0o640])}
        dest_key = "dest"
    elif scenario == "symlink_in":
        pre_dirs.append("m/store")
        pre_symlinks["m/" + dest] = ("../store/actual.bin" if dest.startswith("sub/") else "store/actual.bin")
        ext_files["dest"] = {"location": "store/actual.bin", "dir": "m", "lead": 0, "always": True, "tail": 9}
        dest_key = "dest"
    elif scenario == "symlink_out":
        pre_symlinks["m/" + dest] = os.path.join("..", "..", "out", "actual.bin") if dest.startswith("sub/") else os.path.join("..", "out", "actual.bin")
        ext_files["dest"] = {"location": "actual.bin", "dir": "out", "lead": 0, "always": True, "tail": 11}
        dest_key = "dest"
    elif scenario == "hardlink":
        # the destination is one of two hard links of a data file; the model's tensors read it through the OTHER
        # name, which keeps the old bytes when the destination is replaced (os.replace makes a new inode)
        ext_files["dest"] = {"location": "alias.bin", "dir": "m", "lead": 0, "always": True, "tail": 3}
        pre_hardlinks["m/" + dest] = "m/alias.bin"
        dest_key = "dest"
    elif scenario == "foreign":
        pre_files["m/" + dest] = bytes(r.getrandbits(8) for _ in range(r.choice([0, 1, 33, 200]))).hex()
        if r.random() < 0.5:
            pre_modes["m/" + dest] = r.choice([0o600, 0o444, 0o664])
    dird = st.rng("directory-like-dest")
    if scenario == "absent" and dird.random() < 0.25:
        # an option that can only fail: the destination names a directory (trailing separator, '.', an existing
        # directory) - the save must raise and leave nothing behind
        dest = dird.choice(["sub/", "sub/.", ".", "sub", "sub//"])
    dds = st.rng("dotdot-dest-single")
    if scenario in ("absent", "foreign") and "/" not in dest and dds.random() < 0.3:
        # single-file save whose destination directory is spelled with a `..` after a symlinked directory: the OS
        # resolves m/lnk/.. to the parent of the link's TARGET, lexical normalisation to m
        pre_symlinks["m/lnk"] = os.path.join("..", "out", "deep")
        pre_dirs.append("out/deep")
        if scenario == "foreign":
            pre_files["out/" + dest] = pre_files.pop("m/" + dest)
            if "m/" + dest in pre_modes:
                pre_modes["out/" + dest] = pre_modes.pop("m/" + dest)
        dest = "lnk/../" + dest
    for i in range(n):
        nb = r.choice([0, 1, 3, 8, 9, 16, 17, 40, 64, 130, 300])
        choices = ["sim", "np", "lazy", "proto", "ext_other", "bare", "ext_broken"]
        weights = [40, 12, 10, 6, 10, 4, 2]
        if dest_key is not None:
            choices.append("ext_dest")
            weights.append(45 if scenario == "self" else 25)
        kind = r.choices(choices, weights)[0]
        dtype, elems = "UINT8", nb
        if kind in ("np", "proto") and r.random() < 0.4:
            dtype = r.choice(["FLOAT", "INT64", "FLOAT16", "UINT4", "BOOL", "DOUBLE"])
            elems = max(0, nb * 8 // ir.DataType[dtype].bitwidth)
        spec = {"kind": kind, "dtype": dtype, "n": elems, "shape": tensors.shape_for(elems, r), "name": f"t{i}"}
        if kind == "sim":
            spec["pieces"] = r.choice([1, 2, 3])
        elif kind == "lazy":
            spec["inner"] = r.choice(["sim", "np"])
            spec["cache"] = r.random() < 0.3
            spec["pieces"] = r.choice([1, 2])
            if spec["inner"] == "sim":
                spec["dtype"], spec["n"], spec["shape"] = "UINT8", nb, [nb]
        elif kind == "ext_other":
            spec["kind"], spec["file"], spec["pad"] = "ext", "other", r.choice([0, 2])
        elif kind == "ext_dest":
            spec["kind"], spec["file"], spec["pad"] = "ext", "dest", r.choice([0, 0, 3])
        elif kind == "ext_broken":
            spec["kind"], spec["file"], spec["broken"] = "ext", "other", r.choice(["notdir", "loop", "toolong", "nul"])
            pre_files["m/blocker"] = "00"
            pre_symlinks["m/loop"] = "loop"
        if i > 0 and r.random() < 0.12 and "same_as" not in specs[-1]:
            j = r.randrange(i)
            if "same_as" not in specs[j]:
                spec = {"same_as": j, **{k: specs[j][k] for k in ("kind", "dtype", "n", "shape", "name")}}
        specs.append(spec)
    nsub = r.choice([0, 0, 1])
    graphs = [[] for _ in range(1 + nsub)]
    for i in range(n):
        graphs[0 if r.random() < 0.75 else r.randrange(len(graphs))].append(i)
    total = sum(tensors.nbytes_of(s["dtype"], s["n"]) for s in specs)
    shard = None
    if scenario == "sharded":
        shard = r.choice([1, 16, max(1, total // 2), max(1, total // 3)])
        # pre-existing neighbours, some colliding with shard names of plausible totals
        stem, ext = (dest.rsplit(".", 1) + [""])[:2] if "." in os.path.basename(dest) else (dest, "")
        if dest == "model.fp16.data":
            stem, ext = "model", "fp16.data"
        for _ in range(r.choice([0, 1, 1, 2])):
            tot = r.randint(2, n + 3)
            idx = r.randint(1, tot)
            name = f"{stem}-{idx:05d}-of-{tot:05d}" + (f".{ext}" if ext else "")
            pre_files["m/" + name] = bytes(r.getrandbits(8) for _ in range(r.choice([0, 5, 50]))).hex()
            if r.random() < 0.3:
                pre_modes["m/" + name] = 0o600
        pre_files["m/" + dest] = "aa55"
        pre_files["m/unrelated.bin"] = "0102030405"
        dd = st.rng("dotdot-dest")
        if "/" not in dest and dd.random() < 0.3:
            # the destination is spelled with a `..` that follows a missing directory, or a symlinked one whose parent is
            # another directory: the lexically normalised path and the path the OS resolves are different files
            # (the pre-existing neighbours above sit at the normalised names)
            if dd.random() < 0.5:
                dest = "staging/../" + dest
            else:
                pre_symlinks["m/lnk"] = os.path.join("..", "out")
                dest = "lnk/../" + dest
    workers = r.choice([None, None, None, 1, 2, 3])
    options = {
        "size_threshold_bytes": thr,
        "max_shard_size_bytes": shard,
        "max_workers": workers,
        "max_in_flight_bytes": r.choice([1, 16, 100, 1 << 30]),
        "alignment": r.choice([None, None, 4096]),
        "align_threshold": r.choice([0, 32]),
        "dest": dest,
        "callback": r.random() < 0.5,
    }
    entry = r.choice(["unload", "save", "convert"]) if shard is None else r.choice(["unload", "save"])
    sim = {
        "stickiness": r.choice([0.0, 0.5, 0.9]),
        "spurious": 0.0,
        "preempt_p": 0.0,
        "hide_fileno": r.random() < 0.5,
        "hide_cfr": r.random() < 0.4,
        "cfr_cap": st.rng("buggify-cfr").choice([None, None, None, 1, 5, 64, 1000]),
        "chunk": r.choice([None, 8, 64]),
    }
    tensors.assign_layouts(specs, st.rng("layouts"))
    return {
        "property": PROPERTY,
        "warnings_error": _knobs.warnings_knob(run_seed, 0.15),
        "run_seed": run_seed,
        "scenario": scenario,
        "tensors": specs,
        "graphs": graphs,
        "ext_files": ext_files,
        "pre_files": pre_files,
        "pre_dirs": pre_dirs,
        "pre_symlinks": pre_symlinks,
        "pre_hardlinks": pre_hardlinks,
        "pre_modes": pre_modes,
        "options": options,
        "entry": entry,
        "sim": sim,
        "schedule": None,
        "plan": None,  # None = enumerate; otherwise one explicit fault plan
        "crash_fork": (4 if tier == "thorough" else (2 if index % 8 == 0 else 0)),  # real process deaths at sampled boundaries
        "rlimit_fork": (3 if tier == "thorough" else (1 if index % 4 == 1 else 0)),  # real kernel file-size limits in a forked child
    }


# ----------------------------------------------------------------- execution
def _call(world, options, entry, cb):
    if entry == "convert":
        thr = options.get("size_threshold_bytes", 0)
        ts = [v.const_value for v in world.init_values if v.const_value.nbytes > thr]
        kw = dict(callback=cb, max_workers=options.get("max_workers"), alignment=options.get("alignment"))
        if "max_in_flight_bytes" in options:
            kw["max_in_flight_bytes"] = options["max_in_flight_bytes"]
        if "align_threshold" in options:
            kw["align_threshold"] = options["align_threshold"]
        return _ed.convert_tensors_to_external(ts, world.base, options["dest"], **kw)
    return workload.call_save(world, options, entry, cb)


def _ext_bytes(t) -> bytes:
    # (zero-size tensors used to fail an assertion in tobytes(); repaired in /repo 9056c98)
    return t.tobytes()


def _file_meta(path: str):
    try:
        st_ = os.stat(path)
    except OSError:
        return None
    return (st_.st_ino, stat.S_IMODE(st_.st_mode))


def _pre_state(root: str) -> dict:
    out = {}
    for rel in fsseam.listing(root):
        p = os.path.join(root, rel)
        if rel.endswith("/") or os.path.islink(p):
            out[rel] = ("d" if rel.endswith("/") else "l", None, None)
        else:
            with open(p, "rb") as f:
                out[rel] = ("f", f.read(), _file_meta(p))
    return out


def exec_once(case: dict, plan: dict | None, ref_new: bytes | None, *, root: str | None = None, crash_at: int | None = None, rlimit_fsize: int | None = None, rlimit_nofile: int | None = None) -> dict:
    """One execution with one fault plan.  Returns dict(violation, effects, fired, outcome, ...).

    With ``crash_at=k`` (used in a forked child only) the process dies with os._exit right at boundary k.
    """
    keep_root = root is not None
    root = root or workload.new_scratch("c08")
    out = {"violation": None, "error": None, "effects": [], "fired": [], "outcome": None, "steps": 0, "schedule_digest": None}
    try:
        case = copy.deepcopy(case)
        plan = copy.deepcopy(plan) if plan else {}
        options = case["options"]
        parallel = (options.get("max_workers") or 1) > 1
        streams = Streams(case["run_seed"])
        # collaborator faults are written into the specs
        for tf in plan.get("tensor", []):
            case["tensors"][tf["index"]]["fail"] = {"at": tf["at"], "exc": tf.get("exc", "RuntimeError")}
        sched = None
        if parallel:
            sched = workload.make_sched(case, streams)
            sched.attach_main()
        world = workload.World(case, root, sched=sched, with_faults=True)
        dest_req = os.path.join(world.base, options["dest"])
        sharded = options.get("max_shard_size_bytes") is not None
        pre = _pre_state(root)
        old = fsseam.fresh_read(dest_req)
        dest_real = os.path.realpath(dest_req)
        backed = []
        aliases: set = set()
        for t, payload in zip(world.tensor_objs, world.payloads):
            if isinstance(t, ir.ExternalTensor):
                try:
                    same = os.path.samefile(t.path, dest_real)
                except (OSError, ValueError):
                    continue  # a tensor whose path cannot be stat'ed was never readable: nothing to preserve
                try:
                    if (t.offset or 0) + (t.length or 0) > os.path.getsize(t.path) and (t.length or 0) > 0:
                        continue  # its byte range reaches past the end of the file: it never was readable
                except OSError:
                    continue
                if same and os.path.realpath(t.path) != dest_real:
                    # reads the file through another hard link of the destination: with a base directory the
                    # containment check (C10) refuses multiply linked files, so it never was readable
                    aliases.add(id(t))
                    if t.base_dir:
                        continue
                backed.append((t, payload, same))
        state = {"seen_new": False, "viol": None, "boundaries": 0}

        def on_boundary(k: int, kind: str, rel: str) -> None:
            if crash_at is not None and k == crash_at:
                os._exit(17)  # the process dies between effect k-1 and k: nothing held only in memory survives
            state["boundaries"] += 1
            if sharded or old is None or state["viol"] is not None or rlimit_nofile is not None:
                # (under a real descriptor shortage the oracle must not open files itself: its own EMFILE would surface
                # inside the intercepted call and abort the code under test)
                return
            cur = fsseam.fresh_read(dest_req)
            if cur == old and not (state["seen_new"] and ref_new is not None and old != ref_new):
                return
            if ref_new is not None and cur == ref_new:
                state["seen_new"] = True
                return
            if cur == old:
                state["viol"] = {"clause": "crash-reverted", "detail": f"before effect {k} ({kind} {rel}): destination went back from the new bytes to the old bytes"}
            elif cur is None:
                state["viol"] = {"clause": "crash-missing", "detail": f"before effect {k} ({kind} {rel}): destination that existed is gone", "k": k}
            else:
                what = "truncated" if (len(cur) < len(old) and old.startswith(cur)) or (ref_new is not None and len(cur) < len(ref_new) and ref_new.startswith(cur)) else "mixture"
                state["viol"] = {"clause": "crash-" + what, "detail": f"before effect {k} ({kind} {rel}): destination holds {len(cur)} bytes that are neither the previous ({len(old)}) nor the complete new ({len(ref_new) if ref_new is not None else '?'}) bytes", "k": k}

        seam = fsseam.FsSeam(root, sched=sched, faults=plan.get("fs", []), hide_fileno=case["sim"].get("hide_fileno", False), hide_copy_file_range=case["sim"].get("hide_cfr", False), on_boundary=on_boundary)
        seam.cfr_cap = case["sim"].get("cfr_cap")
        seam.track_reads = True
        seam.read_faults = [dict(f) for f in plan.get("read", [])]
        cb = None
        if options.get("callback") or plan.get("callback") is not None:
            cbp = plan.get("callback") or {}
            cb = workload.CallbackRecorder(world.acct, cbp.get("at"), cbp.get("exc", "RuntimeError"))
        before_vals = [(v, v.const_value) for v in world.init_values]
        raised = None
        aborted = False
        if rlimit_fsize is not None:
            # (forked child only) a REAL kernel-enforced fault: no file may grow beyond this many bytes; writes past the
            # limit fail with EFBIG instead of killing the process
            import resource

            signal.signal(signal.SIGXFSZ, signal.SIG_IGN)
            resource.setrlimit(resource.RLIMIT_FSIZE, (rlimit_fsize, resource.getrlimit(resource.RLIMIT_FSIZE)[1]))
        if rlimit_nofile is not None:
            # (forked child only) a REAL descriptor shortage: only rlimit_nofile more descriptors can be opened from now on;
            # every open / dup beyond that fails with EMFILE, also inside C extensions
            import resource

            n_open = len(os.listdir("/proc/self/fd"))
            resource.setrlimit(resource.RLIMIT_NOFILE, (n_open + rlimit_nofile, resource.getrlimit(resource.RLIMIT_NOFILE)[1]))
        seams = workload.Seams(case, sched, seam, streams)
        with seams:
            try:
                try:
                    _call(world, options, case["entry"], cb)
                except SimAbort:
                    aborted = True
                except BaseException as e:  # noqa: BLE001
                    raised = e
                if sched is not None and not aborted and not sched.aborting:
                    try:
                        sched.drain(lambda: simthreading.release_abandoned_executors(sched))
                    except SimAbort:
                        aborted = True
            finally:
                if sched is not None:
                    sched.close()
        if rlimit_nofile is not None:
            import resource

            resource.setrlimit(resource.RLIMIT_NOFILE, (resource.getrlimit(resource.RLIMIT_NOFILE)[1],) * 2)
        # final boundary (after the last effect)
        seam.enabled = False
        on_boundary(len(seam.effects), "end", "")
        out["effects"] = [(k, kind, rel) for (k, kind, rel, _t) in seam.effects]
        out["fired"] = list(seam.fired)
        out["cfr_capped"] = seam.cfr_capped_calls
        out["read_counts"] = dict(seam.read_kind_counts)
        out["boundaries"] = state["boundaries"]
        if sched is not None:
            out["steps"] = sched.steps
            out["schedule_digest"] = digest(sched.trace)
            out["recorded_schedule"] = list(sched.trace)
            if sched.failure is not None:
                f = sched.failure
                if f.get("clause") == "harness":
                    out["error"] = f["detail"]
                else:
                    # liveness as such belongs to C09; but a save that was interrupted by an injected exception and then
                    # never finishes can never "fail with an exception" nor remove its temporary directory
                    out["outcome"] = "aborted:" + f.get("clause", "")
                    injected = bool(seam.fired) or bool(plan.get("tensor")) or plan.get("callback") is not None
                    if injected and f.get("clause") == "deadlock":
                        out["violation"] = {"clause": "interrupted-save-never-finished", "detail": f"after the injected fault the save neither returned nor raised ({f.get('detail', '')}); its temporary directory can never be removed"}
                return out
        tensor_fired = sum(1 for t in world.tensor_objs if getattr(t, "fail", None) and getattr(t, "materialised", 0))
        out["collab_fired"] = bool(raised is not None and (plan.get("tensor") or plan.get("callback") is not None))
        out["outcome"] = "raised:" + type(raised).__name__ if raised is not None else "returned"
        _ = tensor_fired, before_vals

        def viol(clause, detail, **kw):
            if out["violation"] is None:
                out["violation"] = {"clause": clause, "detail": detail, **kw}

        if state["viol"] is not None:
            viol(**state["viol"])
            return out
        replaced = any(kind == "replace" and os.path.realpath(os.path.join(root, rel)) == dest_real for (k, kind, rel) in out["effects"] if not any(f["k"] == k for f in seam.fired))
        post = _pre_state(root)
        temp_left = [rel for rel in post if rel not in pre and os.path.basename(rel.rstrip("/")).startswith(".")]
        # ---- sharded: never changes a pre-existing file, never invalidates
        if sharded:
            for rel, (typ, data, meta) in pre.items():
                if typ != "f":
                    continue
                now = post.get(rel)
                if now is None or now[1] != data or now[2] != meta:
                    viol("sharded-changed-existing-file", f"{rel}: bytes/mode/inode changed by a sharded save ({out['outcome']})")
                    return out
            for t, payload, _same in backed:
                if not t.valid():
                    viol("sharded-invalidated-tensor", f"external tensor {t.name} invalidated by a sharded save")
                    return out
            if raised is not None and temp_left:
                viol("temp-left-after-exception", f"temporary entries remain after the save raised: {temp_left}")
            return out
        # ---- single file
        cur = fsseam.fresh_read(dest_req)
        if raised is not None:
            if not replaced:
                if cur != old:
                    viol("dest-changed-after-failed-save", f"save raised {type(raised).__name__} before the destination was replaced, yet it holds {None if cur is None else len(cur)} bytes != previous {None if old is None else len(old)} bytes")
                    return out
                extra = sorted(set(post) - set(pre))
                missing = sorted(set(pre) - set(post))
                if extra or missing:
                    viol("temp-left-after-exception", f"directory differs after the save raised {type(raised).__name__}: extra={extra} missing={missing}")
                    return out
                for t, payload, same in backed:
                    if not t.valid():
                        viol("tensor-invalid-after-failed-save", f"external tensor {t.name} (backed by destination: {same}) is invalid although the destination was not replaced")
                        return out
                    try:
                        got = _ext_bytes(t)
                    except Exception as e:  # noqa: BLE001
                        viol("tensor-unreadable-after-failed-save", f"external tensor {t.name}: {type(e).__name__}: {e}")
                        return out
                    if bytes(got) != payload:
                        viol("tensor-bytes-changed-after-failed-save", f"external tensor {t.name} reads different bytes after the failed save")
                        return out
            else:
                if ref_new is not None and cur != ref_new:
                    viol("dest-not-new-after-replace", f"save raised {type(raised).__name__} after replacing the destination, which holds neither complete new bytes")
                    return out
                if temp_left:
                    viol("temp-left-after-exception", f"temporary entries remain after the save raised: {temp_left}")
                    return out
        else:
            if ref_new is not None and cur != ref_new:
                viol("dest-not-new-after-success", f"save returned but destination differs from the complete new bytes ({None if cur is None else len(cur)} vs {len(ref_new)})")
                return out
            for t, payload, same in backed:
                if id(t) in aliases and replaced:
                    # its file (the other link) still holds the previous bytes: it was not replaced
                    if not t.valid():
                        viol("unrelated-tensor-invalidated", f"external tensor {t.name} reads the data through another hard link of the destination; that file was not replaced (it keeps the old bytes) but the tensor was invalidated", key="unrelated-tensor-invalidated|hardlink-alias")
                        return out
                    if bytes(_ext_bytes(t)) != payload:
                        viol("unrelated-tensor-bytes-changed", f"external tensor {t.name} (hard link alias) reads different bytes after the save", key="unrelated-tensor-bytes-changed|hardlink-alias")
                        return out
                if not same:
                    if not t.valid():
                        viol("unrelated-tensor-invalidated", f"external tensor {t.name} is not backed by the replaced file but was invalidated")
                        return out
                    if bytes(_ext_bytes(t)) != payload:
                        viol("unrelated-tensor-bytes-changed", f"external tensor {t.name} (other file) reads different bytes after the save")
                        return out
            if not replaced:
                # nothing was externalised? then nothing may be invalidated
                for t, payload, same in backed:
                    if not t.valid():
                        viol("tensor-invalidated-without-replace", f"external tensor {t.name} invalidated although no file was replaced")
                        return out
            out["diag_temp_left_after_success"] = len(temp_left)
        return out
    except HarnessError as e:
        out["error"] = f"HarnessError: {e}"
        return out
    except fsseam.SeamLost as e:
        out["error"] = f"SEAM-LOST: {e}"
        return out
    finally:
        if not keep_root:
            workload.rm_scratch(root)


def crash_crosscheck(case: dict, n_effects: int, ref_new: bytes | None, rng, samples: int, inc) -> dict | None:
    """Validate the in-run crash oracle with real process deaths: fork, die at boundary k, inspect from the parent."""
    options = case["options"]
    if (options.get("max_workers") or 1) > 1 or options.get("max_shard_size_bytes") is not None:
        return None
    ks = sorted(set(rng.randrange(n_effects + 1) for _ in range(samples)))
    for k in ks:
        root = workload.new_scratch("c08crash")
        probe = workload.new_scratch("c08probe")
        try:
            # what the destination held before: same deterministic world, built by the parent
            w0 = workload.World(copy.deepcopy(case), probe, sched=None, with_faults=False)
            old = fsseam.fresh_read(os.path.join(w0.base, options["dest"]))
            del w0
            pid = os.fork()
            if pid == 0:
                try:
                    exec_once(case, None, ref_new, root=root, crash_at=k)
                finally:
                    os._exit(0)
            _pid, status = os.waitpid(pid, 0)
            died = os.WIFEXITED(status) and os.WEXITSTATUS(status) == 17
            inc("crash_crosscheck_forks")
            if died:
                inc("crash_crosscheck_process_died_at_boundary")
            if old is None:
                continue
            cur = fsseam.fresh_read(os.path.join(root, "m", options["dest"]))
            if cur != old and not (ref_new is not None and cur == ref_new):
                what = "missing" if cur is None else f"{len(cur)} bytes"
                return {"clause": "crash-process-death", "detail": f"the process was killed at boundary {k} of {n_effects}; the destination afterwards holds {what}: neither the previous ({len(old)}) nor the complete new bytes", "k": k}
        finally:
            workload.rm_scratch(root)
            workload.rm_scratch(probe)
    return None


def rlimit_crosscheck(case: dict, ref_new: bytes | None, rng, samples: int, inc) -> dict | None:
    """A file-size limit enforced by the kernel (RLIMIT_FSIZE, the same EFBIG / short-write behaviour as a full disk)
    while a forked child saves; the parent inspects what the child left behind."""
    options = case["options"]
    if options.get("max_shard_size_bytes") is not None or ref_new is None or len(ref_new) < 2:
        return None
    for _ in range(samples):
        limit = max(1, len(ref_new) - rng.choice([1, 1, 2, 7, max(1, len(ref_new) // 3), max(1, len(ref_new) // 2)]))
        nofile = rng.choice([0, 1, 2, 3, 4]) if rng.random() < 0.4 else None
        root = workload.new_scratch("c08rlim")
        probe = workload.new_scratch("c08probe")
        try:
            w0 = workload.World(copy.deepcopy(case), probe, sched=None, with_faults=False)
            old = fsseam.fresh_read(os.path.join(w0.base, options["dest"]))
            pre_listing = fsseam.listing(os.path.join(probe, "m"))
            del w0
            pid = os.fork()
            if pid == 0:
                code = 4
                try:
                    out = exec_once(case, None, ref_new, root=root, rlimit_fsize=limit if nofile is None else None, rlimit_nofile=nofile)
                    oc = out.get("outcome") or ""
                    code = 0 if oc == "returned" else (3 if oc.startswith("raised") else 4)
                finally:
                    os._exit(code)
            _pid, status = os.waitpid(pid, 0)
            code = os.WEXITSTATUS(status) if os.WIFEXITED(status) else -1
            inc("rlimit_crosscheck_forks")
            inc("rlimit_kind_descriptors" if nofile is not None else "rlimit_kind_file_size")
            what_limit = f"only {nofile} more descriptors (RLIMIT_NOFILE)" if nofile is not None else f"a kernel file-size limit of {limit} bytes (complete new data: {len(ref_new)} bytes)"
            inc({0: "rlimit_child_save_returned", 3: "rlimit_child_save_raised"}.get(code, "rlimit_child_other"))
            cur = fsseam.fresh_read(os.path.join(root, "m", options["dest"]))
            if old is not None and cur != old and cur != ref_new:
                what = "missing" if cur is None else f"{len(cur)} bytes"
                return {"clause": "file-size-limit-damaged-destination", "detail": f"with {what_limit} the save {'returned' if code == 0 else 'raised' if code == 3 else 'ended'} and the destination holds {what}: neither the previous ({len(old)}) nor the complete new bytes", "key": "file-size-limit-damaged-destination"}
            if code == 0 and cur != ref_new:
                return {"clause": "file-size-limit-save-returned-incomplete", "detail": f"with {what_limit} the save returned but the destination holds {None if cur is None else len(cur)} bytes instead of the complete {len(ref_new)}", "key": "file-size-limit-save-returned-incomplete"}
            if code == 3 and cur == old:
                extra = [x for x in fsseam.listing(os.path.join(root, "m")) if x not in pre_listing]
                if extra:
                    return {"clause": "temp-left-after-exception", "detail": f"{what_limit}: the save raised, the destination is unchanged, but {extra} were left behind", "key": "temp-left-after-exception|rlimit"}
        finally:
            workload.rm_scratch(root)
            workload.rm_scratch(probe)
    return None


def _needs_short(world, case) -> bool:
    """Does the call have to read a tensor whose byte range reaches past the end of its file?"""
    if not world.short_source:
        return False
    if case["entry"] == "convert":
        # only the tensors above the threshold are handed to convert_tensors_to_external
        thr = case["options"].get("size_threshold_bytes", 0)
        return any(n > thr for n in world.short_sizes)
    return True


def _reference(case: dict):
    """Fault-free serial save in a sibling world; returns (new destination bytes | None, error, input truncated?)."""
    root = workload.new_scratch("c08ref")
    try:
        c = copy.deepcopy(case)
        for s in c["tensors"]:
            s.pop("fail", None)
        world = workload.World(c, root, sched=None, with_faults=False)
        opts = dict(c["options"], max_workers=None)
        try:
            _call(world, opts, c["entry"], None)
        except Exception as e:  # noqa: BLE001
            return None, f"{type(e).__name__}: {e}", _needs_short(world, c)
        return fsseam.fresh_read(os.path.join(world.base, opts["dest"])), None, _needs_short(world, c)
    finally:
        workload.rm_scratch(root)


def enumerate_plans(case: dict, dry: dict, rng, limit: int) -> tuple[list[dict], bool]:
    plans: list[dict] = []
    for (k, kind, rel) in dry["effects"]:
        for en in fsseam.FAULTABLE.get(kind, ()):
            plans.append({"fs": [{"at": k, "errno": en, "mode": "raise"}]})
        if kind in ("write", "copy_file_range"):
            plans.append({"fs": [{"at": k, "errno": "ENOSPC", "mode": "short"}]})
    # read-side calls of the save (opening / mapping / reading source data files, stat and samefile of input
    # tensors' paths): each fails once, transiently, with every errno legal for it
    for kind, count in sorted((dry.get("read_counts") or {}).items()):
        for nth in range(min(count, 8)):
            for en in fsseam.READ_FAULTABLE.get(kind, ()):
                plans.append({"read": [{"kind": kind, "nth": nth, "errno": en}]})
    thr = case["options"].get("size_threshold_bytes", 0)
    for i, s in enumerate(case["tensors"]):
        if "same_as" in s:
            continue
        if s["kind"] == "sim":
            for at in range(0, s.get("pieces", 1) + 1):
                plans.append({"tensor": [{"index": i, "at": at, "exc": "RuntimeError" if at % 2 == 0 else "KeyboardInterrupt"}]})
        elif s["kind"] in ("bare", "lazy"):
            plans.append({"tensor": [{"index": i, "at": 0, "exc": "RuntimeError"}]})
    n_ext = sum(1 for s in case["tensors"] if tensors.nbytes_of(s["dtype"], s["n"]) > thr)
    if case["options"].get("callback"):
        for k in range(n_ext):
            plans.append({"callback": {"at": k, "exc": "RuntimeError" if k % 2 == 0 else "KeyboardInterrupt"}})
    parallel = (case["options"].get("max_workers") or 1) > 1
    if parallel or case["options"].get("max_shard_size_bytes") is not None:
        singles = list(plans)
        for _ in range(min(6, len(singles))):
            a, b = rng.choice(singles), rng.choice(singles)
            merged = {"fs": a.get("fs", []) + b.get("fs", []), "tensor": a.get("tensor", []) + b.get("tensor", []), "read": a.get("read", []) + b.get("read", [])}
            if a.get("callback") or b.get("callback"):
                merged["callback"] = a.get("callback") or b.get("callback")
            plans.append(merged)
    exhaustive = True
    if len(plans) > limit:
        exhaustive = False
        plans = rng.sample(plans, limit)
    return plans, exhaustive


def run_case(case: dict) -> dict:
    with _knobs.interpreter(case):
        return _run_case(case)


def _run_case(case: dict) -> dict:
    stats: dict = {}
    res = {"violation": None, "violations": [], "error": None, "stats": stats, "steps": 0, "distinct": [], "states": [], "case": case}

    def inc(k, n=1):
        stats[k] = stats.get(k, 0) + n

    ref_new, ref_err, short_source = _reference(case)
    if short_source:
        inc("truncated_source_file")
        if ref_err is None:
            # known by construction: an input tensor's byte range reaches past the end of its data file
            v = {"clause": "save-succeeded-with-truncated-source", "detail": f"an input external tensor's data file is shorter than offset+length, yet a fault-free {case['entry']} returned normally (and produced {None if ref_new is None else len(ref_new)} bytes)"}
            c = copy.deepcopy(case)
            c["plan"] = {}
            res["violation"] = v
            res["violations"].append(v)
            res["case"] = c
            return res
    if ref_err is not None:
        expected_refusal = case["options"].get("max_shard_size_bytes") is not None and "FileExistsError" in ref_err
        if any(s.get("broken") for s in case["tensors"]) or case["scenario"] == "hardlink" or short_source:
            # (a tensor reading a multiply linked file is refused by the containment check, see C10)
            # the model holds an unreadable external tensor: every save fails; the failure clauses are what is checked
            inc("unsavable_model_unreadable_input")
        elif not expected_refusal:
            inc("reference_raised")
            res["ref_error"] = ref_err
            # the options cannot be honoured (a destination that names a directory, say): the failure clauses still
            # apply to the save that raises - previous bytes kept, nothing temporary left, tensors valid
            dry = exec_once(case, None, ref_new)
            if dry["error"]:
                return res
            inc("fault_free_save_raises_checked")
            if dry["violation"]:
                c = copy.deepcopy(case)
                c["plan"] = {}
                if dry.get("recorded_schedule") is not None:
                    c["schedule"] = dry["recorded_schedule"]
                res["violations"].append(dry["violation"])
                res["case"] = c
                res["violation"] = dry["violation"]
            return res
        inc("sharded_refused_collision")
    wkey = digest((case["tensors"], case["graphs"], case["options"], case["scenario"], case["entry"], case["sim"], case["ext_files"], case["pre_files"]))
    if case.get("rlimit_only"):
        # replay of a violation found by the kernel file-size-limit cross-check: run exactly that again
        rv = rlimit_crosscheck(case, ref_new, Streams(case["run_seed"]).rng("rlimit-fork"), case.get("rlimit_fork") or 1, inc)
        if rv is not None:
            res["violation"] = rv
            res["violations"].append(rv)
        return res
    if case.get("plan") is not None:
        plans = [case["plan"]]
        exhaustive = False
    else:
        dry = exec_once(case, None, ref_new)
        if dry["error"]:
            res["error"] = dry["error"]
            return res
        inc("executions")
        inc("crash_points_checked", dry.get("boundaries", 0))
        inc("scenario_" + case["scenario"])
        inc("mode_parallel" if (case["options"].get("max_workers") or 1) > 1 else "mode_serial")
        res["steps"] += dry["steps"]
        for (_k, kind, _rel) in dry["effects"]:
            inc("effect_" + kind)
        if len(dry["effects"]) >= 3:
            res["distinct"].append(digest((wkey, None)))
        if dry["violation"]:
            c = copy.deepcopy(case)
            c["plan"] = {}
            if dry.get("recorded_schedule") is not None:
                c["schedule"] = dry["recorded_schedule"]
            res["violations"].append(dry["violation"])
            res["case"] = c
            res["violation"] = dry["violation"]
            return res
        rng = Streams(case["run_seed"]).rng("faults-plans")
        if case.get("crash_fork"):
            cv = crash_crosscheck(case, len(dry["effects"]), ref_new, Streams(case["run_seed"]).rng("crash-fork"), case["crash_fork"], inc)
            if cv is not None:
                c = copy.deepcopy(case)
                c["plan"] = {}
                res["case"] = c
                res["violation"] = cv
                res["violations"].append(cv)
                return res
        if case.get("rlimit_fork"):
            rv = rlimit_crosscheck(case, ref_new, Streams(case["run_seed"]).rng("rlimit-fork"), case["rlimit_fork"], inc)
            if rv is not None:
                c = copy.deepcopy(case)
                c["rlimit_only"] = True
                res["case"] = c
                res["violation"] = rv
                res["violations"].append(rv)
                return res
        plans, exhaustive = enumerate_plans(case, dry, rng, 140)
        inc("workloads_exhaustive_single_faults" if exhaustive else "workloads_sampled_faults")
        res["sample"] = {
            "scenario": case["scenario"],
            "entry": case["entry"],
            "options": case["options"],
            "tensors": [(s.get("kind"), s.get("file"), s.get("n"), s.get("pieces")) for s in case["tensors"]],
            "effects": [f"{k}:{kind}:{rel}" for (k, kind, rel) in dry["effects"]][:60],
            "fault_plans": len(plans),
            "outcome_fault_free": dry["outcome"],
        }
    trail = []
    for plan in plans:
        r = exec_once(case, plan, ref_new)
        trail.append((plan, r["outcome"], r["effects"], r.get("schedule_digest")))
        res["event_digest"] = digest(trail)
        inc("executions")
        res["steps"] += r["steps"]
        if r["error"]:
            res["error"] = r["error"]
            return res
        inc("crash_points_checked", r.get("boundaries", 0))
        if r.get("cfr_capped"):
            inc("buggify_copy_file_range_short_counts", r["cfr_capped"])
        fired_any = False
        for f in r["fired"]:
            inc(("fault_read_side_" if f["k"] == -1 else "fault_") + f"{f['kind']}_{f['errno']}" + ("_short" if f["mode"] == "short" else ""))
            fired_any = True
        if r.get("collab_fired"):
            inc("fault_tensor_or_callback_raised")
            fired_any = True
        if fired_any:
            res["distinct"].append(digest((wkey, plan)))
        inc("outcome_" + (r["outcome"] or "none").split(":")[0])
        if r["violation"]:
            c = copy.deepcopy(case)
            c["plan"] = plan
            if r.get("recorded_schedule") is not None:
                c["schedule"] = r["recorded_schedule"]
            res["case"] = c
            res["violation"] = r["violation"]
            res["violations"].append(r["violation"])
            return res
    return res


def shrink_candidates(case: dict, violation: dict):
    base = copy.deepcopy(case)
    n = len(base["tensors"])
    plan = base.get("plan") or {}

    def drop_tensor(c, k):
        c = copy.deepcopy(c)
        if any(s.get("same_as") == k for s in c["tensors"]):
            return None
        p = c.get("plan") or {}
        if any(tf["index"] == k for tf in p.get("tensor", [])):
            return None
        c["tensors"] = [dict(s) for i, s in enumerate(c["tensors"]) if i != k]
        for s in c["tensors"]:
            if s.get("same_as") is not None and s["same_as"] > k:
                s["same_as"] -= 1
        for tf in p.get("tensor", []):
            if tf["index"] > k:
                tf["index"] -= 1
        c["graphs"] = [[(i if i < k else i - 1) for i in g if i != k] for g in c["graphs"]]
        c["schedule"] = None
        return c

    if n > 1:
        for k in range(n - 1, -1, -1):
            c = drop_tensor(base, k)
            if c is not None:
                yield c
    for key, val in (("alignment", None), ("callback", False), ("size_threshold_bytes", 0)):
        if base["options"].get(key) != val and not (key == "callback" and plan.get("callback") is not None):
            c = copy.deepcopy(base)
            c["options"][key] = val
            c["schedule"] = None
            yield c
    if (base["options"].get("max_workers") or 1) > 1 and not plan.get("fs"):
        c = copy.deepcopy(base)
        c["options"]["max_workers"] = None
        c["schedule"] = None
        yield c
    if len(base["graphs"]) > 1:
        c = copy.deepcopy(base)
        c["graphs"] = [[i for g in base["graphs"] for i in g]]
        c.pop("graph_parents", None)
        c["schedule"] = None
        yield c
    for key, val in (("chunk", None), ("hide_cfr", False), ("stickiness", 0.0), ("cfr_cap", None)):
        if base["sim"].get(key) != val:
            c = copy.deepcopy(base)
            c["sim"][key] = val
            c["schedule"] = None
            yield c
    # fewer faults
    for part in ("fs", "tensor"):
        lst = plan.get(part, [])
        if len(lst) + (1 if plan.get("callback") else 0) + len(plan.get("tensor" if part == "fs" else "fs", [])) > 1:
            for i in range(len(lst)):
                c = copy.deepcopy(base)
                c["plan"][part] = lst[:i] + lst[i + 1 :]
                yield c


def finding_key(case: dict, violation: dict) -> str:
    return f"{violation.get('clause')}|{case.get('scenario')}|{case.get('entry')}"


def check_reach(agg: dict, tier: str):
    st = agg["stats"]
    need = ["scenario_self", "scenario_foreign", "scenario_sharded", "scenario_symlink_in", "mode_parallel", "fault_replace_EACCES", "fault_write_ENOSPC", "fault_tensor_or_callback_raised", "fault_mkdtemp_ENOSPC", "sharded_refused_collision", "effect_copy_file_range"]
    if not st.get("effect_mkdtemp"):
        # the code under test creates its staging area some other way: a fault on an effect that never happens cannot fire
        need.remove("fault_mkdtemp_ENOSPC")
    missing = [k for k in need if not st.get(k)]
    if st.get("reference_raised", 0) > 0.2 * max(1, agg["runs"]):
        return [f"fault-free reference save raised in {st.get('reference_raised')} of {agg['runs']} workloads"]
    return missing if (tier == "thorough" or agg["runs"] > 60) else []


def evidence_extra(agg: dict, tier: str) -> dict:
    st = agg["stats"]
    return {
        "evaluations": st.get("executions", 0),
        "workloads": agg["runs"],
        "executions": st.get("executions", 0),
        "crash_points_checked": st.get("crash_points_checked", 0),
        "exhaustive_scope": "per workload: every single production fault (effect x legal errno, short writes), every tensor piece position and callback call; workloads themselves are sampled",
        "workloads_with_exhaustive_single_fault_enumeration": st.get("workloads_exhaustive_single_faults", 0),
        "workloads_with_sampled_faults": st.get("workloads_sampled_faults", 0),
    }


_ = traceback
