"""Engine B world: build a model from a JSON-able case, run a save under the
scheduler and the FS seam, collect what the oracles need."""

from __future__ import annotations

import itertools
import os
import shutil

import onnx_ir as ir
import onnx_ir._core as _core
import onnx_ir._io as _io
import onnx_ir.external_data as _ed

from iosim import fsseam, preempt, simthreading, tensors
from iosim.sched import HarnessError, Scheduler, SimAbort
from simcore.prng import Streams

_counter = itertools.count()
SCRATCH_BASE = "/dev/shm" if os.path.isdir("/dev/shm") and os.access("/dev/shm", os.W_OK) else (os.environ.get("TMPDIR") or "/var/tmp")


def new_scratch(tag: str) -> str:
    p = os.path.join(SCRATCH_BASE, f"verif-{os.getpid()}-{next(_counter)}-{tag}")
    if os.path.exists(p):
        shutil.rmtree(p)
    os.makedirs(p)
    return p


def rm_scratch(p: str) -> None:
    shutil.rmtree(p, ignore_errors=True)


class CallbackRecorder:
    def __init__(self, acct: tensors.Accounting, fail_at: int | None, exc: str = "RuntimeError") -> None:
        self.acct = acct
        self.fail_at = fail_at
        self.exc = exc
        self.calls: list[dict] = []
        self.n = 0

    def __call__(self, tensor, info) -> None:
        a = self.acct
        s = a.sched
        if s is not None and s.aborting:
            return
        if a.cb_active > 0:
            a.fail("callback-concurrent", "progress callback entered by two threads at once")
        a.cb_active += 1
        try:
            k = self.n
            self.n += 1
            self.calls.append(
                {
                    "tensor_id": id(tensor),
                    "total": info.total,
                    "index": info.index,
                    "offset": info.offset,
                    "filename": info.filename,
                    "shard_total": info.shard_total,
                    "shard_index": info.shard_index,
                    "thread": a._thread(),
                }
            )
            if s is not None and s.active:
                s.log("cb", info.index, a._thread())
            a.yield_("callback.inside")
            if self.fail_at is not None and k == self.fail_at:
                if s is not None and s.active:
                    s.stats_inc("callback_fault_fired")
                raise tensors.EXC_TYPES[self.exc](f"injected failure in callback call {k}")
            a.yield_("callback.inside2")
        finally:
            a.cb_active -= 1


class World:
    """One model + directory built from a case."""

    def __init__(self, case: dict, root: str, *, sched=None, with_faults: bool = True) -> None:
        self.case = case
        self.root = root
        self.base = os.path.join(root, "m")
        os.makedirs(self.base, exist_ok=True)
        self.acct = tensors.Accounting(sched)
        self.sched = sched
        run_seed = case["run_seed"]
        # external files that already exist
        self.ext_files: dict = {}
        for key, ef in case.get("ext_files", {}).items():
            self.ext_files[key] = {
                "location": ef["location"],
                "base_dir": os.path.join(root, ef.get("dir", "m")),
                "cursor": ef.get("lead", 0),
                "tail": ef.get("tail", 0),
                "always": ef.get("always", False),
                "cut": ef.get("cut", 0),
                "chunks": [],
            }
        # pre-existing directories, links and plain files come first so that
        # already-external data can be written through links
        for d in case.get("pre_dirs", []):
            os.makedirs(os.path.join(root, d), exist_ok=True)
        for link, target in case.get("pre_symlinks", {}).items():
            lp = os.path.join(root, link)
            os.makedirs(os.path.dirname(lp), exist_ok=True)
            os.symlink(target, lp)
        for rel, content in case.get("pre_files", {}).items():
            p = os.path.join(root, rel)
            os.makedirs(os.path.dirname(p), exist_ok=True)
            with open(p, "wb") as f:
                f.write(bytes.fromhex(content) if isinstance(content, str) else bytes(content))
            mode = case.get("pre_modes", {}).get(rel)
            if mode is not None:
                os.chmod(p, mode)
        self.tensor_objs: list = []
        self.payloads: list[bytes] = []
        for i, spec in enumerate(case["tensors"]):
            spec = dict(spec)
            if not with_faults:
                spec.pop("fail", None)
            elif spec.get("fail") is not None:
                spec["fail"] = dict(spec["fail"])
            if "same_as" in spec and spec["same_as"] is not None:
                j = spec["same_as"]
                self.tensor_objs.append(self.tensor_objs[j])
                self.payloads.append(self.payloads[j])
                continue
            t, payload = tensors.build_tensor(spec, i, run_seed, self.acct, self.ext_files, root)
            self.tensor_objs.append(t)
            self.payloads.append(payload)
        tensors.flush_ext_files(self.ext_files)
        self.short_source = any(info.get("short") for info in self.ext_files.values())
        self.short_sizes = [n for info in self.ext_files.values() for n in info.get("short_sizes", [])]
        for link, target in case.get("pre_hardlinks", {}).items():
            lp = os.path.join(root, link)
            os.makedirs(os.path.dirname(lp), exist_ok=True)
            os.link(os.path.join(root, target), lp)
        for key, ef in case.get("ext_files", {}).items():
            if ef.get("mode") is not None and self.ext_files[key]["chunks"]:
                os.chmod(os.path.join(self.ext_files[key]["base_dir"], ef["location"]), ef["mode"])
        self.model, self.init_values = self._build_model()

    def _build_model(self):
        case = self.case
        graphs_spec = case["graphs"]  # list of lists of tensor indices; [0] is main
        values_per_graph = []
        name_ctr = itertools.count()
        for g_i, idxs in enumerate(graphs_spec):
            vals = []
            for ti in idxs:
                t = self.tensor_objs[ti]
                v = ir.Value(const_value=t)
                # the name setter aligns the tensor's own name with the value's name (the usual
                # situation); a tensor object shared by several values keeps the last one
                if case.get("dup_names"):
                    # initializer names are unique per graph only: sibling / nested graphs reuse them
                    v.name = f"w{len(vals)}"
                    next(name_ctr)
                else:
                    v.name = f"init_{next(name_ctr)}_{ti}"
                vals.append(v)
            values_per_graph.append(vals)
        parents = case.get("graph_parents") or [None] + [0] * (len(graphs_spec) - 1)
        main = ir.Graph(inputs=[], outputs=[], nodes=[], initializers=values_per_graph[0], name="main", opset_imports={"": 20})
        graph_objs = [main]
        for g_i in range(1, len(graphs_spec)):
            vals = values_per_graph[g_i]
            sub = ir.Graph(inputs=[], outputs=[], nodes=[], initializers=vals, name=f"sub{g_i}")
            n = ir.Node("", "If", inputs=[], attributes=[ir.AttrGraph("then_branch", sub)], num_outputs=1, name=f"if{g_i}")
            # a subgraph hangs off the main graph or off an earlier subgraph (nesting of any depth)
            graph_objs[parents[g_i]].append(n)
            graph_objs.append(sub)
        model = ir.Model(main, ir_version=10)
        all_vals = [v for vals in values_per_graph for v in vals]
        return model, all_vals


def make_sched(case: dict, streams: Streams, on_yield=None) -> Scheduler:
    sim = case.get("sim", {})
    # the step cap is a liveness bound relative to the work: every copied chunk of an external tensor is a step
    total = 0
    for spec in case.get("tensors", []):
        try:
            total += tensors.nbytes_of(spec["dtype"], spec["n"])
        except Exception:  # noqa: BLE001
            pass
    step_cap = 100_000 + 16 * (total // max(1, sim.get("chunk") or 4096)) + (2000 * len(case.get("tensors", [])) if sim.get("cfr_cap") else 0)
    sched = Scheduler(
        streams.rng("schedule"),
        choices=case.get("schedule"),
        choices_only=case.get("schedule") is not None,
        stickiness=sim.get("stickiness", 0.0),
        max_steps=sim.get("max_steps", step_cap),
        on_yield=on_yield,
    )
    simthreading.install_sched_extras(sched, spurious_rate=sim.get("spurious", 0.0), rng_faults=streams.rng("faults"))
    return sched


class Seams:
    """Install thread + FS seams for one simulated call; restore afterwards."""

    def __init__(self, case: dict, sched: Scheduler | None, seam: fsseam.FsSeam, streams: Streams) -> None:
        self.case = case
        self.sched = sched
        self.seam = seam
        self.streams = streams
        self.rb = fsseam.Rebind()
        self.preempt_counts = (0, 0)

    def __enter__(self):
        rb = self.rb
        rb.__enter__()
        sim = self.case.get("sim", {})
        fsseam.install_fs(rb, self.seam)
        if self.sched is not None:
            for n in ("threading", "concurrent"):
                rb.require(_ed, n)
            th, cf = simthreading.make_namespaces(self.sched)
            rb.set(_ed, "threading", th)
            rb.set(_ed, "concurrent", cf)
        chunk = sim.get("chunk")
        if chunk:
            rb.require(_core, "_EXTERNAL_TENSOR_COPY_CHUNK_SIZE")
            rb.set(_core, "_EXTERNAL_TENSOR_COPY_CHUNK_SIZE", chunk)
        p = sim.get("preempt_p", 0.0)
        pts = sim.get("preempt_points")
        fp = sim.get("preempt_first", 0.0)
        if self.sched is not None and (p or pts or fp):
            preempt.register([_ed])
            preempt.enable(self.sched, p=p, rng=self.streams.rng("preempt"), points=pts, first_p=fp)
            self._pre = True
        else:
            self._pre = False
        return self

    def __exit__(self, *exc):
        if self._pre:
            self.preempt_counts = preempt.disable()
        self.rb.__exit__(*exc)
        return False


def call_save(world: World, options: dict, entry: str, callback) -> None:
    kw = dict(
        size_threshold_bytes=options.get("size_threshold_bytes", 0),
        max_shard_size_bytes=options.get("max_shard_size_bytes"),
        callback=callback,
        max_workers=options.get("max_workers"),
        alignment=options.get("alignment"),
    )
    if "max_in_flight_bytes" in options:
        kw["max_in_flight_bytes"] = options["max_in_flight_bytes"]
    if "align_threshold" in options:
        kw["align_threshold"] = options["align_threshold"]
    dest = options.get("dest", "w.data")
    if entry == "unload":
        _ed.unload_from_model(world.model, world.base, dest, **kw)
    elif entry == "save":
        model_path = os.path.join(world.base, options.get("model_name", "model.onnx"))
        _io.save(world.model, model_path, external_data=dest, **kw)
    else:
        raise ValueError(entry)


def snapshot_files(root: str, sub: str = "m") -> dict[str, bytes]:
    out = {}
    base = os.path.join(root, sub)
    for rel in fsseam.listing(base):
        if rel.endswith("/"):
            out[rel] = None
            continue
        with open(os.path.join(base, rel), "rb") as f:
            out[rel] = f.read()
    return out


def ext_infos(world: World) -> list:
    out = []
    for v in world.init_values:
        t = v.const_value
        if isinstance(t, ir.ExternalTensor):
            out.append(("ext", str(t.location), t.offset, t.length))
        else:
            out.append(("mem", type(t).__name__))
    return out


__all__ = ["World", "Seams", "CallbackRecorder", "make_sched", "call_save", "new_scratch", "rm_scratch", "snapshot_files", "ext_infos", "HarnessError", "SimAbort"]
