"""Tensor factory for Engine B workloads, incl. instrumented tensors.

Every tensor is described by a JSON-able spec; its reference payload (the
little-endian packed bytes it must contribute to a data file) is derived from
(run_seed, index) only.
"""

from __future__ import annotations

import math
import os
import random
import weakref

import numpy as np
import onnx
import onnx_ir as ir
from onnx_ir import _core

from simcore.prng import H

DTYPES = [
    "FLOAT", "UINT8", "INT8", "UINT16", "INT16", "INT32", "INT64", "BOOL", "FLOAT16", "DOUBLE",
    "UINT32", "UINT64", "COMPLEX64", "COMPLEX128", "BFLOAT16", "FLOAT8E4M3FN", "FLOAT8E4M3FNUZ",
    "FLOAT8E5M2", "FLOAT8E5M2FNUZ", "UINT4", "INT4", "FLOAT4E2M1", "FLOAT8E8M0", "UINT2", "INT2",
]  # fmt: skip
SUBBYTE = {"UINT4": 4, "INT4": 4, "FLOAT4E2M1": 4, "UINT2": 2, "INT2": 2}


def dt(name: str) -> ir.DataType:
    return ir.DataType[name]


STRING_ITEM = 3  # every generated string is 3 bytes long


def nbytes_of(dtype: str, n: int) -> int:
    if dtype == "STRING":
        return n * STRING_ITEM
    bw = dt(dtype).bitwidth
    return math.ceil(n * bw / 8)


def make_payload(seed: int, dtype: str, n: int) -> bytes:
    """Reference bytes: random, with BOOL in {0,1} and sub-byte padding bits cleared."""
    nb = nbytes_of(dtype, n)
    rng = random.Random(seed)
    b = bytearray(rng.getrandbits(8) for _ in range(nb))
    if dtype == "STRING":
        # printable bytes only: numpy's fixed-width bytes type strips trailing NULs when the strings are read back
        b = bytearray(33 + (x % 94) for x in b)
    if dtype == "BOOL":
        b = bytearray(x & 1 for x in b)
    bw = SUBBYTE.get(dtype)
    if bw and nb:
        used_bits = (n * bw) % 8
        if used_bits:
            b[-1] &= (1 << used_bits) - 1
    return bytes(b)


def shape_for(n: int, rng: random.Random) -> list[int]:
    if n == 0:
        return rng.choice([[0], [0, 3], [2, 0]])
    if n == 1 and rng.random() < 0.3:
        return []
    # factor into up to 3 dims
    dims = [n]
    for _ in range(rng.randrange(3)):
        d = dims[-1]
        fs = [f for f in (2, 3, 4, 5, 7) if d % f == 0 and d // f >= 1]
        if not fs:
            break
        f = rng.choice(fs)
        dims[-1:] = [f, d // f]
    return dims


class Accounting:
    """Harness-side accounting of instrumented tensors (the C09 oracles a-c)."""

    def __init__(self, sched=None) -> None:
        self.sched = sched
        self.held = 0
        self.max_held = 0
        self.inside: dict[int, int] = {}  # id(tensor obj) -> threads inside
        self.bound: int | None = None
        self.violation: dict | None = None
        self.cb_active = 0
        self.cb_calls: list[tuple] = []
        self.entries = 0
        self.max_concurrent_tensors = 0
        self.lazy_live: dict[int, tuple] = {}  # id(token) -> (token, nbytes, loading thread)

    def _thread(self) -> int:
        s = self.sched
        if s is None or not s.active:
            return 0
        me = s.me()
        return me.idx if me is not None else -1

    def fail(self, clause: str, detail: str) -> None:
        v = {"clause": clause, "detail": detail}
        if self.violation is None:
            self.violation = v
        s = self.sched
        if s is not None and s.active and not s.aborting:
            s.abort(v)

    def yield_(self, tag: str) -> None:
        s = self.sched
        if s is not None and s.active and not s.aborting:
            s.yield_point(tag)

    def enter(self, tensor, nbytes: int, tag: str) -> None:
        s = self.sched
        if s is not None and s.aborting:
            return
        key = id(tensor)
        self.entries += 1
        c = self.inside.get(key, 0) + 1
        self.inside[key] = c
        self.held += nbytes
        if self.held > self.max_held:
            self.max_held = self.held
        if s is not None and s.active:
            s.log("t-enter", tensor.sim_index, self._thread())
        self.max_concurrent_tensors = max(self.max_concurrent_tensors, sum(self.inside.values()))
        if c > 1:
            self.fail("shared-tensor-concurrent", f"tensor #{tensor.sim_index} materialised by {c} threads at once")
        if self.bound is not None and self.held > self.bound:
            self.fail("budget-exceeded", f"held={self.held} > budget+largest={self.bound}")
        self.yield_(tag)

    def exit(self, tensor, nbytes: int, log: bool = True) -> None:
        key = id(tensor)
        if key in self.inside:
            self.inside[key] -= 1
            if self.inside[key] <= 0:
                del self.inside[key]
            self.held -= nbytes
        self.lazy_live.pop(key, None)
        s = self.sched
        if log and s is not None and s.active and not s.aborting:
            s.log("t-exit", tensor.sim_index, self._thread())

    def lazy_loaded(self, token, nbytes: int) -> None:
        self.lazy_live[id(token)] = (token, nbytes, self._thread())

    def drop_pinned_by_traceback(self) -> None:
        """The calling thread is unwinding with an exception: what it loaded is now referenced by the traceback only."""
        me = self._thread()
        for key, (token, nbytes, th) in list(self.lazy_live.items()):
            if th == me:
                self.exit(token, nbytes, log=False)


class InjectedError(RuntimeError):
    pass


class InjectedInterrupt(KeyboardInterrupt):
    """A BaseException (the parallel writer handles BaseException)."""


EXC_TYPES = {"RuntimeError": InjectedError, "KeyboardInterrupt": InjectedInterrupt, "OSError": OSError, "MemoryError": MemoryError}


class SimTensor(_core.TensorBase):
    """Instrumented TensorProtocol implementation (a public extension point)."""

    def __init__(self, acct: Accounting, payload: bytes, dtype: str, shape, name: str, *, sim_index: int, pieces: int = 1, fail: dict | None = None) -> None:
        super().__init__(name=name)
        self._acct = acct
        self._payload = payload
        self._dtype = dt(dtype)
        self._shape = ir.Shape(shape)
        self.sim_index = sim_index
        self.pieces = max(1, pieces)
        self.fail = fail
        self.materialised = 0
        self.raw = None

    @property
    def dtype(self):
        return self._dtype

    @property
    def shape(self):
        return self._shape

    def _maybe_fail(self, at: int) -> None:
        f = self.fail
        if f is not None and f.get("at") == at and not f.get("spent"):
            if f.get("once"):
                f["spent"] = True
            self._acct.sched and self._acct.sched.stats_inc("tensor_fault_fired")
            raise EXC_TYPES[f.get("exc", "RuntimeError")](f"injected failure in tensor #{self.sim_index} at piece {at}")

    def numpy(self) -> np.ndarray:
        return np.frombuffer(self._payload, dtype=np.uint8)

    def __array__(self, dtype=None, copy=None):
        return self.numpy()

    def __dlpack__(self, *, stream=None):
        raise NotImplementedError

    def __dlpack_device__(self):
        raise NotImplementedError

    def tobytes(self) -> bytes:
        nb = len(self._payload)
        self._acct.enter(self, nb, "tensor.tobytes")
        try:
            self.materialised += 1
            self._maybe_fail(0)
            return self._payload
        finally:
            self._acct.exit(self, nb)

    def tofile(self, file) -> None:
        nb = len(self._payload)
        self._acct.enter(self, nb, "tensor.enter")
        try:
            self.materialised += 1
            n = self.pieces
            step = max(1, -(-nb // n)) if nb else 1
            chunks = [self._payload[i : i + step] for i in range(0, nb, step)] or [b""]
            for i, c in enumerate(chunks):
                self._maybe_fail(i)
                file.write(c)
                self._acct.yield_("tensor.piece")
            self._maybe_fail(len(chunks))
        finally:
            self._acct.exit(self, nb)

    def __repr__(self) -> str:
        return f"SimTensor#{self.sim_index}<{self._dtype},{self._shape}>"


class BareSimTensor:
    """TensorProtocol implementer *without* ``tofile`` (pre-0.1.11 style)."""

    def __init__(self, inner: SimTensor) -> None:
        self._inner = inner
        self.name = inner.name
        self.doc_string = None
        self.raw = None
        self.metadata_props: dict = {}
        self.meta: dict = {}
        self.sim_index = inner.sim_index

    @property
    def dtype(self):
        return self._inner.dtype

    @property
    def shape(self):
        return self._inner.shape

    @property
    def size(self):
        return self._inner.size

    @property
    def nbytes(self):
        return self._inner.nbytes

    def numpy(self):
        return self._inner.numpy()

    def __array__(self, dtype=None, copy=None):
        return self._inner.numpy()

    def __dlpack__(self, *, stream=None):
        raise NotImplementedError

    def __dlpack_device__(self):
        raise NotImplementedError

    def tobytes(self) -> bytes:
        return self._inner.tobytes()

    def __repr__(self) -> str:
        return f"BareSimTensor#{self.sim_index}"


_NP_FOR = {
    "FLOAT": np.float32, "UINT8": np.uint8, "INT8": np.int8, "UINT16": np.uint16, "INT16": np.int16,
    "INT32": np.int32, "INT64": np.int64, "BOOL": np.bool_, "FLOAT16": np.float16, "DOUBLE": np.float64,
    "UINT32": np.uint32, "UINT64": np.uint64, "COMPLEX64": np.complex64, "COMPLEX128": np.complex128,
}  # fmt: skip


class _LazyToken:
    """Stands for the bytes a lazy tensor's loader has produced (accounting key)."""

    def __init__(self, sim_index: int) -> None:
        self.sim_index = sim_index


LAYOUTS = ("c", "f", "strided", "reversed", "transposed")


def relayout(arr: np.ndarray, layout: str | None) -> np.ndarray:
    """The same logical array in another memory layout (its C-order bytes stay what the payload says)."""
    if not layout or layout == "c" or arr.ndim == 0 or arr.size == 0:
        return arr
    if layout == "f":
        return np.asfortranarray(arr)
    if layout == "strided":
        wide = np.zeros(arr.shape[:-1] + (arr.shape[-1] * 2,), dtype=arr.dtype)
        wide[..., 1::2] = 0x5A if arr.dtype.kind in "ui" else 1
        wide[..., ::2] = arr
        return wide[..., ::2]
    if layout == "reversed":
        return np.ascontiguousarray(arr[::-1])[::-1]
    if layout == "transposed":
        return np.ascontiguousarray(arr.T).T
    raise ValueError(layout)


def assign_layouts(specs: list[dict], rng: random.Random, p: float = 0.35) -> None:
    """Give numpy-backed tensor specs a memory layout (drawn from a stream of its own)."""
    for spec in specs:
        if "same_as" in spec:
            continue
        if spec.get("kind") == "np" or (spec.get("kind") == "lazy" and spec.get("inner", "np") == "np"):
            x = rng.random()
            lay = rng.choice(LAYOUTS[1:])
            if x < p and spec.get("dtype") not in SUBBYTE:
                spec["layout"] = lay


def _np_tensor(payload: bytes, dtype: str, shape, name: str, layout: str | None = None):
    d = dt(dtype)
    if dtype in _NP_FOR:
        arr = np.frombuffer(payload, dtype=np.dtype(_NP_FOR[dtype]).newbyteorder("<")).reshape(shape)
        return ir.Tensor(relayout(arr, layout), dtype=d, name=name)
    if dtype in SUBBYTE:
        return ir.PackedTensor(np.frombuffer(payload, dtype=np.uint8), d, shape=shape, name=name)
    if dtype == "BFLOAT16":
        arr = np.frombuffer(payload, dtype="<u2").reshape(shape)
        return ir.Tensor(relayout(arr, layout), dtype=d, name=name)
    # 8-bit floats: uint8 carrier
    arr = np.frombuffer(payload, dtype=np.uint8).reshape(shape)
    return ir.Tensor(relayout(arr, layout), dtype=d, name=name)


def _proto_tensor(payload: bytes, dtype: str, shape, name: str):
    p = onnx.TensorProto()
    p.name = name
    p.data_type = int(dt(dtype))
    p.dims.extend(shape)
    p.raw_data = payload
    return ir.serde.deserialize_tensor(p)


def build_tensor(spec: dict, idx: int, run_seed: int, acct: Accounting, ext_files: dict, root: str):
    """Return (tensor object, reference payload)."""
    dtype = spec["dtype"]
    n = spec["n"]
    shape = spec["shape"]
    name = spec.get("name", f"t{idx}")
    payload = make_payload(H(run_seed, "payload", idx), dtype, n)
    kind = spec["kind"]
    if kind == "sim":
        t = SimTensor(acct, payload, dtype, shape, name, sim_index=idx, pieces=spec.get("pieces", 1), fail=spec.get("fail"))
    elif kind == "bare":
        t = BareSimTensor(SimTensor(acct, payload, dtype, shape, name, sim_index=idx, fail=spec.get("fail")))
    elif kind == "string":
        items = [payload[STRING_ITEM * i : STRING_ITEM * (i + 1)] for i in range(n)]
        t = ir.StringTensor(np.array(items, dtype=object).reshape(shape), name=name)
    elif kind == "np":
        t = _np_tensor(payload, dtype, shape, name, spec.get("layout"))
    elif kind == "proto":
        t = _proto_tensor(payload, dtype, shape, name)
    elif kind == "lazy":
        inner_kind = spec.get("inner", "np")
        state = {"calls": 0}
        fail = spec.get("fail")

        keep_alive = bool(spec.get("cache", False))

        def thunk(_k=inner_kind):
            state["calls"] += 1
            if _k == "sim":
                return SimTensor(acct, payload, dtype, shape, name, sim_index=idx, pieces=spec.get("pieces", 1), fail=fail)
            # the bytes are materialised from the moment the loader runs until the produced tensor is dropped again
            # (for a caching lazy tensor the caller keeps them for good - by its own choice - so only the load is counted)
            token = _LazyToken(idx)
            acct.enter(token, len(payload), "lazy.thunk")
            try:
                if fail is not None and not fail.get("spent"):
                    if fail.get("once"):
                        fail["spent"] = True
                    raise EXC_TYPES[fail.get("exc", "RuntimeError")](f"injected failure in lazy tensor #{idx}")
                result = _proto_tensor(payload, dtype, shape, name) if _k == "proto" else _np_tensor(payload, dtype, shape, name, spec.get("layout"))
            except BaseException:
                acct.exit(token, len(payload))
                raise
            if keep_alive:
                acct.exit(token, len(payload))
            else:
                acct.lazy_loaded(token, len(payload))
                weakref.finalize(result, acct.exit, token, len(payload), False)
            return result

        t = ir.LazyTensor(thunk, dtype=dt(dtype), shape=ir.Shape(shape), cache=spec.get("cache", False), name=name)
    elif kind == "ext" and spec.get("broken"):
        # an external tensor whose path cannot even be stat'ed (the tensor is unreadable: a save that needs it fails)
        loc = {"notdir": "blocker/x.bin", "loop": "loop/x.bin", "toolong": "n" * 300 + ".bin", "nul": "we\0ird.bin"}[spec["broken"]]
        t = ir.ExternalTensor(loc, 0, len(payload), dt(dtype), shape=ir.Shape(shape), name=name, base_dir=ext_files["other"]["base_dir"])
    elif kind == "ext":
        # already-external tensor living in file spec["file"] (relative to root/base) at a given slot
        fkey = spec["file"]
        info = ext_files[fkey]
        off = info["cursor"]
        pad = spec.get("pad", 0)
        off += pad
        info["chunks"].append((off, payload))
        info["cursor"] = off + len(payload)
        t = ir.ExternalTensor(
            info["location"], off, len(payload), dt(dtype), shape=ir.Shape(shape), name=name, base_dir=info["base_dir"]
        )
    else:
        raise ValueError(kind)
    return t, payload


def flush_ext_files(ext_files: dict) -> None:
    for info in ext_files.values():
        if not info["chunks"] and not info.get("always"):
            continue
        path = os.path.join(info["base_dir"], info["location"])
        os.makedirs(os.path.dirname(path) or ".", exist_ok=True)
        buf = bytearray(info["cursor"] + info.get("tail", 0))
        # fill holes with a recognisable non-zero pattern so that stale reads show up
        for i in range(len(buf)):
            buf[i] = 0xEE
        for off, payload in info["chunks"]:
            buf[off : off + len(payload)] = payload
        with open(path, "wb") as f:
            f.write(bytes(buf))
        info["bytes"] = bytes(buf)
        cut = info.get("cut", 0)
        if cut and len(buf) > 0:
            # the data file is shorter than the model says: the last tensor(s) reach past its end
            new_len = max(0, len(buf) - cut)
            os.truncate(path, new_len)
            info["bytes"] = bytes(buf[:new_len])
            info["short"] = any(len(payload) > 0 and off + len(payload) > new_len for off, payload in info["chunks"])
            info["short_sizes"] = [len(payload) for off, payload in info["chunks"] if len(payload) > 0 and off + len(payload) > new_len]
