"""C09 — concurrent external-data writing is schedule-independent, bounded and live.

One simulated process saves a model with max_workers > 1 under the baton
scheduler; the same workload is first saved serially (no scheduler) as the
reference.  See DESIGN.md section 5 (C09).
"""

from __future__ import annotations

import copy
import os
import sys
import traceback

import onnx_ir as ir
import onnx_ir.external_data as _ed

from iosim import fsseam, tensors, workload
from iosim.sched import HarnessError, SimAbort
from iosim import simthreading
from simcore import knobs as _knobs
from simcore.prng import Streams, digest

PROPERTY = "C09"
import logging

logging.getLogger("onnx_ir").setLevel(logging.ERROR)
LEVEL = "exploration"
TIERS = {
    "quick": {"max_runs": 4000, "optimize_runs": 800, "wall": 420, "optimize_wall": 180, "chunk": 40, "shrink_budget": 250, "shrink_wall": 60},
    "thorough": {"wall": 600, "optimize_wall": 90, "chunk": 200, "shrink_budget": 600, "shrink_wall": 240},
}
RULE = (
    "each run = one seeded workload (2-12 initializers of mixed kinds/sizes around the byte budget, worker count, sharding, "
    "failing tensors/callback) saved under one seeded thread schedule chosen at every synchronisation point, file-system effect, "
    "instrumented-tensor piece and (in a third of runs) random bytecode boundaries of external_data.py; distinct = distinct digest of "
    "(workload configuration, schedule choice sequence); a run is non-trivial when at least 2 simulated threads ran and a context switch happened"
)
ASSUMPTIONS = [
    "threading.Lock/Condition, ThreadPoolExecutor, Future, as_completed are ~300-line stubs written from the documentation (barging locks, optional spurious wake-ups)",
    "only one simulated thread runs at a time: races needing two threads inside GIL-released C code are out of reach",
    "materialised-byte accounting counts instrumented tensors only (others are atomic between yield points); external inputs count 0 (sound under-approximation)",
    "serial save of the same workload (real threading, no scheduler) is the byte reference",
]
REAL_STUB = {
    "real": ["onnx_ir.external_data (all)", "onnx_ir._io.save", "onnx_ir._core tensors incl. ExternalTensor (real mmap / copy_file_range)", "onnx_ir.serde", "onnx.save", "tmpfs file system"],
    "stub": ["threading.Lock", "threading.Condition", "concurrent.futures.ThreadPoolExecutor", "Future", "as_completed", "tempfile.mkdtemp naming"],
    "harness_extension_points": ["instrumented TensorProtocol tensors", "LazyTensor thunks", "progress callback"],
}


# ---------------------------------------------------------------- generation
def gen_case(run_seed: int, tier: str, index: int = 0) -> dict:
    st = Streams(run_seed)
    r = st.rng("config")
    n = r.choice([2, 2, 3, 3, 4, 4, 5, 6, 7, 8, 10, 12])
    budget = r.choice([1, 7, 16, 64, 100, 256, 1000, 1 << 30])
    specs = []
    for i in range(n):
        # sizes clustered around the budget
        mode = r.random()
        if budget < (1 << 20):
            if mode < 0.15:
                nb = 0
            elif mode < 0.35:
                nb = r.randint(1, max(1, budget // 2))
            elif mode < 0.5:
                nb = budget
            elif mode < 0.65:
                nb = budget + 1
            elif mode < 0.85:
                nb = budget + r.randint(1, 3 * budget + 8)
            else:
                nb = r.randint(1, 2 * budget + 4)
        else:
            nb = r.choice([0, 1, 3, 17, 64, 255, 1024])
        nb = min(nb, 4096)
        kind = r.choices(["sim", "np", "lazy", "proto", "ext", "bare"], [60, 8, 14, 4, 8, 6])[0]
        dtype = "UINT8"
        elems = nb
        if kind in ("np", "proto", "lazy") and r.random() < 0.5:
            dtype = r.choice(["FLOAT", "INT64", "FLOAT16", "UINT4", "INT8", "BOOL", "BFLOAT16", "DOUBLE"])
            elems = max(0, nb * 8 // ir.DataType[dtype].bitwidth)
        spec = {"kind": kind, "dtype": dtype, "n": elems, "shape": tensors.shape_for(elems, r), "name": f"t{i}"}
        if kind == "sim":
            spec["pieces"] = r.choice([1, 1, 2, 3])
        if kind == "lazy":
            spec["inner"] = r.choice(["sim", "np", "np", "proto"])
            spec["cache"] = r.random() < 0.3
            spec["pieces"] = r.choice([1, 2])
            if spec["inner"] == "sim":
                spec["dtype"], spec["n"], spec["shape"] = "UINT8", nb, [nb]
        if kind == "ext":
            spec["file"] = r.choice(["other", "other", "outside"])
            spec["pad"] = r.choice([0, 0, 3])
        if i > 0 and r.random() < 0.2:
            j = r.randrange(i)
            if "same_as" not in specs[j]:
                spec = {"same_as": j, **{k: specs[j][k] for k in ("kind", "dtype", "n", "shape", "name")}}
        specs.append(spec)
    tied = None
    if st.rng("template").random() < 0.1:
        # directed template: a tied weight T (one tensor object used by two initializers) that is larger than the
        # budget, laid out so that one shard holds T alone and the next one holds T again plus small tensors
        tr = st.rng("template-body")
        big = tr.choice([64, 200, 900])
        budget = tr.choice([1, 16, big // 2])
        small = [tr.randint(1, max(1, big // 4)) for _ in range(tr.choice([1, 2]))]
        specs = [{"kind": tr.choice(["sim", "sim", "np", "lazy"]), "dtype": "UINT8", "n": big, "shape": [big], "name": "t0"}]
        if specs[0]["kind"] == "sim":
            specs[0]["pieces"] = tr.choice([1, 2])
        if specs[0]["kind"] == "lazy":
            specs[0].update(inner="sim", cache=tr.random() < 0.5, pieces=1)
        specs.append({"same_as": 0, **{k: specs[0][k] for k in ("kind", "dtype", "n", "shape", "name")}})
        for k_, nb_ in enumerate(small):
            specs.append({"kind": "sim", "dtype": "UINT8", "n": nb_, "shape": [nb_], "name": f"t{2 + k_}", "pieces": 1})
        n = len(specs)
        tied = {"shard": big + sum(small), "workers": tr.choice([6, 8, 8, 12])}
    # graphs
    idxs = list(range(n))
    nsub = r.choice([0, 0, 0, 1, 2])
    graphs = [[] for _ in range(1 + nsub)]
    for i in idxs:
        graphs[0 if r.random() < 0.7 else r.randrange(len(graphs))].append(i)
    total = sum(tensors.nbytes_of(s["dtype"], s["n"]) for s in specs)
    shard = None
    if r.random() < 0.4:
        shard = r.choice([1, 5, max(1, total // 2), max(1, total // 3), max(1, total // 5), total + 1])
    if tied is not None:
        graphs = [list(range(n))] + [[] for _ in range(nsub)]  # declaration order matters for the shard layout
        shard = tied["shard"]
    options = {
        # (-1: zero-size tensors are written as external data too)
        "size_threshold_bytes": (-1 if st.rng("negative-threshold").random() < 0.2 else r.choice([0, 0, 0, 1, 16])) if tied is None else 0,
        "max_shard_size_bytes": shard,
        "max_workers": r.choice([2, 2, 3, 3, 4, 8]) if tied is None else tied["workers"],
        "max_in_flight_bytes": budget,
        "alignment": r.choice([None, None, None, 4096, 1]),
        "align_threshold": r.choice([0, 0, 100]),
        "dest": r.choice(["w.data", "w.data", "model.fp16.data", "sub/w.bin", "w"]),
        "callback": r.random() < 0.7,
    }
    # faults
    fmode = r.choices(["none", "tensor", "callback", "two"], [55, 27, 10, 8])[0]
    faults = {"mode": fmode}
    failable = [i for i, s in enumerate(specs) if "same_as" not in s and (s["kind"] in ("sim", "bare") or (s["kind"] == "lazy"))]
    if fmode in ("tensor", "two") and failable:
        k = 2 if fmode == "two" else 1
        for i in r.sample(failable, min(k, len(failable))):
            specs[i]["fail"] = {"at": r.choice([0, 0, 1]) if specs[i]["kind"] == "sim" else 0, "exc": r.choice(["RuntimeError", "RuntimeError", "KeyboardInterrupt", "OSError", "MemoryError"])}
    elif fmode == "callback":
        options["callback"] = True
        faults["callback_fail_at"] = r.randrange(max(1, n))
        faults["callback_exc"] = r.choice(["RuntimeError", "KeyboardInterrupt"])
    elif fmode == "none" and st.rng("fs-faults").random() < 0.18:
        # a file-system effect of one of the writers fails (write / flush / close of a per-worker descriptor, the kernel
        # copy, the final rename): the caller must get the error - after all workers have stopped - or files equal to
        # the serial save, never a silently different file
        fr_ = st.rng("fs-faults")
        kind = fr_.choice(["write", "close", "close", "flush", "open_w", "copy_file_range", "replace"])
        faults["mode"] = "fs"
        if fr_.random() < 0.3:
            # a REAL fault instead: the kernel lets no file grow beyond this size while the save runs (RLIMIT_FSIZE)
            total_ = sum(tensors.nbytes_of(s_["dtype"], s_["n"]) for s_ in specs)
            faults["rlimit_fsize"] = max(1, fr_.choice([total_ - 1, total_ // 2, total_ // 3, 5, 64]))
        else:
            faults["fs"] = {"kind": kind, "nth": fr_.choice([0, 0, 1, 2, 3]), "errno": fr_.choice(fsseam.FAULTABLE[kind]), "mode": "raise"}
    else:
        faults["mode"] = "none" if fmode != "callback" else fmode
    sim = {
        "stickiness": r.choice([0.0, 0.0, 0.5, 0.8, 0.95]),
        "spurious": r.choice([0.0, 0.0, 0.15]),
        "preempt_p": r.choice([0.0, 0.0, 0.003, 0.02]),
        "preempt_first": st.rng("preempt-first-visit").choice([0.0, 0.0, 0.3, 0.7]),
        # PCT-style: a few pre-chosen bytecode boundaries at which the running thread is pre-empted
        "preempt_points": (sorted(r.sample(range(1, 4000), r.choice([1, 2, 3]))) if r.random() < 0.15 else None),
        "hide_fileno": r.random() < 0.4,
        "hide_cfr": r.random() < 0.3,
        "cfr_cap": st.rng("buggify-cfr").choice([None, None, None, 1, 5, 64, 1000]),
        "chunk": r.choice([None, 16, 64]),
    }
    tensors.assign_layouts(specs, st.rng("layouts"))
    case = {
        "property": PROPERTY,
        "warnings_error": _knobs.warnings_knob(run_seed, 0.15),
        "run_seed": run_seed,
        "tensors": specs,
        "graphs": graphs,
        "graph_parents": (lambda rp: [None] + [rp.randrange(g) for g in range(1, 1 + nsub)])(st.rng("nesting")),
        "ext_files": {
            "other": {"location": "other.data", "dir": "m", "lead": r.choice([0, 5])},
            "outside": {"location": "pre/old.bin", "dir": "m", "lead": 0},
        },
        "options": options,
        "faults": faults,
        "entry": r.choice(["unload", "unload", "save"]),
        "sim": sim,
        "schedule": None,
    }
    case["pre_dirs"] = ["m/sub"]
    return case


# ----------------------------------------------------------------- execution
class _BudgetRecorder:
    def __init__(self, acct=None) -> None:
        self.objs: list = []
        self.acct = acct

    def wrap(self, real_cls):
        rec = self

        class RecordingBudget(real_cls):  # type: ignore[misc, valid-type]
            def __init__(self, *a, **k):
                super().__init__(*a, **k)
                rec.objs.append(self)

            if hasattr(real_cls, "release"):

                def release(self, *a, **k):
                    # releasing while an exception unwinds this thread: the bytes it loaded stay referenced by the
                    # traceback only (a reference the eventual holder of the exception owns), not by the writer
                    if sys.exc_info()[1] is not None and rec.acct is not None:
                        rec.acct.drop_pinned_by_traceback()
                    return super().release(*a, **k)

        return RecordingBudget


def _expected_external(world, options) -> list[int]:
    thr = options.get("size_threshold_bytes", 0)
    return [i for i, v in enumerate(world.init_values) if v.const_value is not None and v.const_value.nbytes > thr]


def _drop_traceback_locals(exc) -> None:
    import gc

    seen, todo = set(), [exc]
    while todo:
        e = todo.pop()
        if e is None or id(e) in seen:
            continue
        seen.add(id(e))
        traceback.clear_frames(e.__traceback__)
        todo += [e.__cause__, e.__context__]
        todo += list(getattr(e, "exceptions", ()) or ())
    gc.collect()


def run_case(case: dict) -> dict:
    with _knobs.interpreter(case):
        return _run_case(case)


def _run_case(case: dict) -> dict:
    case = copy.deepcopy(case)
    root = workload.new_scratch("c09")
    stats: dict = {}
    res = {"violation": None, "error": None, "stats": stats, "steps": 0, "distinct": [], "states": [], "case": case}
    try:
        _run(case, root, res)
    except HarnessError as e:
        res["error"] = f"HarnessError: {e}"
    except fsseam.SeamLost as e:
        res["error"] = f"SEAM-LOST: {e}"
    finally:
        workload.rm_scratch(root)
    return res


def _inc(stats, k, n=1):
    stats[k] = stats.get(k, 0) + n


def _run(case: dict, root: str, res: dict) -> None:
    stats = res["stats"]
    options = case["options"]
    streams = Streams(case["run_seed"])
    # ---------------- reference: serial, real threading, no faults
    ref_root = os.path.join(root, "ref")
    os.makedirs(ref_root)
    ref = workload.World(case, ref_root, sched=None, with_faults=False)
    ref_opts = dict(options, max_workers=None)
    try:
        workload.call_save(ref, ref_opts, case["entry"], None)
    except Exception as e:  # noqa: BLE001
        _inc(stats, "reference_raised")
        res["distinct"] = []
        res["sample"] = None
        res["ref_error"] = f"{type(e).__name__}: {e}"
        return
    ref_files = workload.snapshot_files(ref_root)
    ref_infos = workload.ext_infos(ref)
    # ---------------- simulated run
    sim_root = os.path.join(root, "sim")
    os.makedirs(sim_root)
    sched = workload.make_sched(case, streams)
    sched.attach_main()
    world = workload.World(case, sim_root, sched=sched, with_faults=True)
    acct = world.acct
    n_ext = len(_expected_external(world, options))
    largest = max([len(p) for p in world.payloads] or [0])
    acct.bound = options["max_in_flight_bytes"] + largest
    seam = fsseam.FsSeam(sim_root, sched=sched, faults=[dict(case["faults"]["fs"])] if case["faults"].get("fs") else [], hide_fileno=case["sim"].get("hide_fileno", False), hide_copy_file_range=case["sim"].get("hide_cfr", False))
    seam.cfr_cap = case["sim"].get("cfr_cap")
    faults = case.get("faults", {})
    cb = None
    if options.get("callback"):
        cb = workload.CallbackRecorder(acct, faults.get("callback_fail_at"), faults.get("callback_exc", "RuntimeError"))
    budgets = _BudgetRecorder(acct)

    def probe():
        blocked = sum(1 for t in sched.threads if not t.finished and t.pred is not None)
        fin = sum(1 for t in sched.threads if t.finished)
        q = sum(len(ex._queue) for ex in sched.executors)
        h = acct.held
        hb = 0 if h == 0 else (1 if h <= options["max_in_flight_bytes"] else 2)
        return (hb, blocked, fin, min(q, 6), len(acct.inside))

    sched.state_probe = probe
    raised: BaseException | None = None
    aborted = False
    unfinished_at_return: list = []
    held_at_return = 0
    seams = workload.Seams(case, sched, seam, streams)
    rl_prev = None
    if faults.get("rlimit_fsize"):
        import resource
        import signal as _signal

        _signal.signal(_signal.SIGXFSZ, _signal.SIG_IGN)
        rl_prev = resource.getrlimit(resource.RLIMIT_FSIZE)
        resource.setrlimit(resource.RLIMIT_FSIZE, (int(faults["rlimit_fsize"]), rl_prev[1]))
        _inc(stats, "fault_kernel_file_size_limit_armed")
    with seams:
        if hasattr(_ed, "_ByteBudget"):
            seams.rb.set(_ed, "_ByteBudget", budgets.wrap(_ed._ByteBudget))
        try:
            try:
                workload.call_save(world, options, case["entry"], cb)
            except SimAbort:
                aborted = True
            except BaseException as e:  # noqa: BLE001
                raised = e
            if not aborted and not sched.aborting:
                unfinished_at_return = [(t.idx, t.name, t.tag) for t in sched.unfinished() if t.idx not in sched.idle_workers or True]
                if raised is not None and acct.held:
                    # a traceback keeps the locals of every frame it passed through alive; those references belong to
                    # whoever holds the exception (this harness), not to the call under test
                    _drop_traceback_locals(raised)
                held_at_return = acct.held
                try:
                    sched.drain(lambda: simthreading.release_abandoned_executors(sched))
                except SimAbort:
                    aborted = True
        finally:
            if rl_prev is not None:
                import resource

                resource.setrlimit(resource.RLIMIT_FSIZE, rl_prev)
            sched.close()
    res["steps"] = sched.steps
    res["schedule_digest"] = digest(sched.trace)
    res["states"] = list(sched.states)
    for k, v in sched.counters.items():
        _inc(stats, k, v)
    _inc(stats, "preempt_events", seams.preempt_counts[0])
    _inc(stats, "preempt_yields", seams.preempt_counts[1])
    _inc(stats, "threads_spawned", len(sched.threads) - 1)
    _inc(stats, "context_switches", sched.switches)
    for f_ in seam.fired:
        _inc(stats, f"fault_fs_{f_['kind']}_{f_['errno']}")
    if acct.max_held > options["max_in_flight_bytes"]:
        _inc(stats, "reach_oversized_admitted")
    if acct.max_concurrent_tensors >= 2:
        _inc(stats, "reach_two_tensors_materialised_concurrently")
    if options.get("max_shard_size_bytes") is not None:
        _inc(stats, "cfg_sharded")
    if any("same_as" in s for s in case["tensors"]):
        _inc(stats, "cfg_shared_tensor")
    case_key = digest((case["tensors"], case["graphs"], case["options"], case["faults"], case["entry"]))
    nontrivial = len(sched.threads) > 2 and sched.switches > 0
    res["distinct"] = [digest((case_key, sched.trace))] if nontrivial else []
    res["recorded_schedule"] = list(sched.trace)
    res["event_digest"] = digest(sched.events)
    res["sample"] = {
        "tensors": [(s.get("kind"), s.get("n"), s.get("same_as")) for s in case["tensors"]],
        "options": options,
        "faults": faults,
        "threads": len(sched.threads),
        "steps": sched.steps,
        "schedule_prefix": sched.trace[:40],
        "outcome": "raised " + type(raised).__name__ if raised else ("aborted" if aborted else "returned"),
    }

    def violation(clause, detail, **extra):
        if res["violation"] is None:
            res["violation"] = {"clause": clause, "detail": detail, **extra}
            # pin the schedule for replay
            case["schedule"] = list(sched.trace)

    if sched.failure is not None:
        f = sched.failure
        if f.get("clause") == "harness":
            res["error"] = f["detail"]
            return
        violation(f["clause"], f.get("detail", ""), waiting=f.get("waiting"))
        return
    if acct.violation is not None:
        violation(acct.violation["clause"], acct.violation["detail"])
        return
    # ---------------- termination reached: evaluate the post-run oracles
    if unfinished_at_return:
        violation("workers-running-at-return", f"call {'raised' if raised else 'returned'} while simulated threads were unfinished: {unfinished_at_return}")
        return
    if held_at_return != 0:
        violation("bytes-held-at-return", f"{held_at_return} materialised bytes still accounted when the call ended")
        return
    for b in budgets.objs:
        inflight = getattr(b, "_in_flight", 0)
        over = getattr(b, "_oversized_active", False)
        if inflight != 0 or over:
            violation("budget-not-released", f"byte budget after the call: in_flight={inflight} oversized_active={over}")
            return
    if budgets.objs:
        _inc(stats, "budget_objects_checked", len(budgets.objs))
    injected = (tensors.InjectedError, tensors.InjectedInterrupt)
    expects_fault = faults.get("mode") in ("tensor", "two", "callback")
    if raised is not None:
        _inc(stats, "outcome_raised")
        fault_possible = any(s.get("fail") for s in case["tensors"]) or faults.get("callback_fail_at") is not None or bool(seam.fired) or bool(faults.get("rlimit_fsize"))
        ok_type = False
        e, hops = raised, 0
        while e is not None and hops < 10:
            if isinstance(e, injected) or (isinstance(e, (OSError, MemoryError)) and ("injected failure" in str(e) or "[injected]" in str(e))) or (isinstance(e, OSError) and faults.get("rlimit_fsize")):
                ok_type = True
                break
            e, hops = (e.__cause__ or e.__context__), hops + 1
        if not (fault_possible and ok_type):
            tb = "".join(traceback.format_exception(type(raised), raised, raised.__traceback__))[-1500:]
            violation("unexpected-exception", f"{type(raised).__name__}: {raised}", tb=tb)
            return
        _inc(stats, "outcome_injected_fault_reached_caller")
        return
    _inc(stats, "outcome_returned")
    # a fault that was planned may legitimately not fire (tensor below threshold etc.); nothing to check then
    sim_files = workload.snapshot_files(sim_root)
    if set(sim_files) != set(ref_files):
        violation("files-differ-from-serial", f"file set differs: only-parallel={sorted(set(sim_files) - set(ref_files))} only-serial={sorted(set(ref_files) - set(sim_files))}")
        return
    for name in sorted(ref_files):
        if sim_files[name] != ref_files[name]:
            a, b = sim_files[name], ref_files[name]
            pos = next((i for i, (x, y) in enumerate(zip(a or b"", b or b"")) if x != y), min(len(a or b""), len(b or b"")))
            violation("files-differ-from-serial", f"{name}: {len(a or b'')} vs {len(b or b'')} bytes, first difference at {pos}")
            return
    infos = workload.ext_infos(world)
    if infos != ref_infos:
        violation("tensor-locations-differ-from-serial", f"{infos} vs {ref_infos}")
        return
    if cb is not None:
        calls = cb.calls
        if len(calls) != n_ext:
            violation("callback-count", f"{len(calls)} callback calls for {n_ext} externalised tensors")
            return
        idxs = sorted(c["index"] for c in calls)
        if idxs != list(range(n_ext)):
            violation("callback-count", f"callback indices {idxs} are not a permutation of range({n_ext})")
            return
        _inc(stats, "callback_calls", len(calls))
        if len({c["thread"] for c in calls}) > 1:
            _inc(stats, "reach_callback_from_several_threads")
    _ = expects_fault


def shrink_candidates(case: dict, violation: dict):
    """Smaller cases first; schedule shrinking last."""
    base = copy.deepcopy(case)
    had_schedule = base.get("schedule") is not None
    n = len(base["tensors"])

    def without_tensor(c, k):
        c = copy.deepcopy(c)
        # drop k; tensors that shared k become independent copies of its spec
        spec_k = c["tensors"][k]
        new = []
        for i, s in enumerate(c["tensors"]):
            if i == k:
                continue
            s = dict(s)
            if s.get("same_as") is not None:
                if s["same_as"] == k:
                    s.pop("same_as")
                    for kk, vv in spec_k.items():
                        if kk not in ("same_as",):
                            s.setdefault(kk, vv)
                    if s["kind"] == "sim":
                        s.setdefault("pieces", 1)
                elif s["same_as"] > k:
                    s["same_as"] -= 1
            new.append(s)
        # fix same_as pointing to a later 'owner' after promotion: keep order semantic simple
        c["tensors"] = new
        c["graphs"] = [[(i if i < k else i - 1) for i in g if i != k] for g in c["graphs"]]
        c["schedule"] = None
        return c

    if n > 1:
        for k in range(n - 1, -1, -1):
            yield without_tensor(base, k)
    # simplify options
    for key, val in (("max_shard_size_bytes", None), ("alignment", None), ("callback", False), ("size_threshold_bytes", 0), ("dest", "w.data")):
        if base["options"].get(key) != val and not (key == "callback" and base["faults"].get("mode") == "callback"):
            c = copy.deepcopy(base)
            c["options"][key] = val
            c["schedule"] = None
            yield c
    if base["options"]["max_workers"] > 2:
        c = copy.deepcopy(base)
        c["options"]["max_workers"] = 2
        c["schedule"] = None
        yield c
    if base["entry"] != "unload":
        c = copy.deepcopy(base)
        c["entry"] = "unload"
        c["schedule"] = None
        yield c
    if len(base["graphs"]) > 1:
        c = copy.deepcopy(base)
        c["graphs"] = [[i for g in base["graphs"] for i in g]]
        c.pop("graph_parents", None)
        c["schedule"] = None
        yield c
    for key, val in (("preempt_p", 0.0), ("preempt_first", 0.0), ("preempt_points", None), ("spurious", 0.0), ("hide_fileno", False), ("hide_cfr", False), ("chunk", None), ("stickiness", 0.0), ("cfr_cap", None)):
        if base["sim"].get(key) != val:
            c = copy.deepcopy(base)
            c["sim"][key] = val
            c["schedule"] = None
            yield c
    for i, s in enumerate(base["tensors"]):
        if s.get("fail") and sum(1 for x in base["tensors"] if x.get("fail")) > 1:
            c = copy.deepcopy(base)
            c["tensors"][i].pop("fail")
            c["schedule"] = None
            yield c
        if "same_as" not in s and s.get("kind") not in ("sim",) and not any(x.get("same_as") == i for x in base["tensors"]):
            c = copy.deepcopy(base)
            nb = tensors.nbytes_of(s["dtype"], s["n"])
            c["tensors"][i] = {"kind": "sim", "dtype": "UINT8", "n": nb, "shape": [nb], "name": s["name"], "pieces": 1, **({"fail": s["fail"]} if s.get("fail") else {})}
            c["schedule"] = None
            yield c
    # schedule: needs the recorded one
    if had_schedule:
        sch = base["schedule"]
        # truncate (the tail falls back to 'stay on current')
        for cut in (len(sch) // 2, len(sch) * 3 // 4):
            if 0 < cut < len(sch):
                c = copy.deepcopy(base)
                c["schedule"] = sch[:cut]
                yield c
        # remove context switches in blocks, then singly
        for width in (16, 4, 1):
            for lo in range(0, len(sch), width):
                seg = sch[lo : lo + width]
                if all(x == -1 for x in seg):
                    continue
                c = copy.deepcopy(base)
                c["schedule"] = sch[:lo] + [-1] * len(seg) + sch[lo + width :]
                yield c


def finding_key(case: dict, violation: dict) -> str:
    return f"{violation.get('clause')}"


def check_reach(agg: dict, tier: str):
    st = agg["stats"]
    need = ["cond_wait", "lock_contended", "reach_oversized_admitted", "reach_two_tensors_materialised_concurrently", "outcome_injected_fault_reached_caller", "outcome_returned", "cfg_sharded", "cfg_shared_tensor"]
    missing = [k for k in need if not st.get(k)]
    if st.get("reference_raised", 0) > 0.2 * max(1, agg["runs"]):
        return [f"fault-free serial reference save raised in {st.get('reference_raised')} of {agg['runs']} runs"]
    return missing if (tier == "thorough" or agg["runs"] > 500) else []


def evidence_extra(agg: dict, tier: str) -> dict:
    return {"bounds": {"tensors": "2-12", "workers": "2-8", "tensor_bytes": "0-4096", "budget": "1 .. 2^30"}}
