"""File-system seam: observe and perturb the real file system.

All file-system effects of the code under test go through the proxies below,
which are rebound into the target modules' namespaces (``open``, ``os``,
``shutil``, ``tempfile``, ``mmap``, ``onnx``).  Each *mutating effect* is
numbered in execution order; before effect *k* is performed the seam (1) offers
the baton to the scheduler, (2) evaluates the crash oracle for the boundary
"process dies between effect k-1 and k", (3) consults the fault plan.

Underneath, the real file system (a scratch directory on tmpfs) is used,
because ExternalTensor reads through mmap and os.copy_file_range.
"""

from __future__ import annotations

import builtins
import contextlib
import errno as _errno
import io
import mmap as _real_mmap
import os as _real_os
import shutil as _real_shutil
import sys
import tempfile as _real_tempfile
import types
from typing import Callable

MUTATING_KINDS = (
    "mkdtemp",
    "open_w",
    "write",
    "truncate",
    "flush",
    "close",
    "fdwrite",
    "copy_file_range",
    "copymode",
    "replace",
    "remove",
    "rmdir",
    "onnx.save",
    "st.serialize_file",
)
# effects that a fault plan may fail (cleanup effects are never failed, fdwrite is a marker)
FAULTABLE = {
    "mkdtemp": ("EACCES", "ENOSPC", "EMFILE"),
    "open_w": ("EMFILE", "ENOSPC", "EACCES"),
    "write": ("ENOSPC", "EIO", "EDQUOT"),
    "truncate": ("ENOSPC", "EIO"),
    "flush": ("ENOSPC", "EIO"),
    "close": ("ENOSPC", "EIO"),
    "copy_file_range": ("EIO", "EXDEV", "EINVAL", "ENOSPC"),
    "copymode": ("EPERM",),
    "replace": ("EACCES", "EBUSY", "ENOSPC"),
    "onnx.save": ("ENOSPC",),
    "st.serialize_file": ("ENOSPC",),
}


# read-side calls that a plan may fail once (transiently), addressed as (kind, nth call of that kind)
READ_FAULTABLE = {
    "open_r": ("EMFILE", "EACCES", "EIO"),
    "mmap": ("ENOMEM", "ENODEV"),
    "read": ("EIO",),
    "stat": ("EACCES", "EIO"),
    "samefile": ("EACCES", "EIO"),
}


class SeamLost(Exception):
    pass


class FsSeam:
    def __init__(
        self,
        root: str,
        *,
        sched=None,
        faults: list[dict] | None = None,
        hide_fileno: bool = False,
        hide_copy_file_range: bool = False,
        on_boundary: Callable[[int, str, str], None] | None = None,
    ) -> None:
        self.root = _real_os.path.realpath(root)
        self.sched = sched
        self.faults = list(faults or [])
        self.hide_fileno = hide_fileno
        self.hide_copy_file_range = hide_copy_file_range
        self.on_boundary = on_boundary
        self.effects: list[tuple] = []  # (k, kind, relpath, thread)
        self.reads: list[tuple] = []  # (kind, relpath/abs, inode info)
        self.kind_counts: dict[str, int] = {}
        self.fired: list[dict] = []
        self.enabled = True
        self.track_reads = False
        self._mk = 0
        # transient faults of read-side calls (stat, lstat): [{"kind": "stat", "nth": 0, "errno": "EIO"}], one-shot each
        # buggify: the kernel may copy fewer bytes than asked for; cap the bytes of every copy_file_range call
        self.cfr_cap: int | None = None
        self.cfr_capped_calls = 0
        self.raw_short_writes = 0
        self.read_faults: list[dict] = []
        self.read_kind_counts: dict[str, int] = {}

    # ------------------------------------------------------------------ utils
    def rel(self, path) -> str:
        try:
            p = _real_os.fspath(path)
        except TypeError:
            return repr(path)
        if isinstance(p, bytes):
            p = p.decode("utf-8", "replace")
        if ".." in p.split(_real_os.sep):
            # a `..` after a symlinked directory: the OS does not resolve it lexically, and neither must the log
            d_, b_ = _real_os.path.split(p)
            p = _real_os.path.join(_real_os.path.realpath(d_ or "."), b_)
        ap = _real_os.path.abspath(p)
        if ap == self.root:
            return "."
        if ap.startswith(self.root + _real_os.sep):
            return ap[len(self.root) + 1 :]
        return "ABS:" + ap

    def _thread_idx(self) -> int:
        s = self.sched
        if s is None or not s.active:
            return 0
        me = s.me()
        return me.idx if me is not None else -1

    def effect(self, kind: str, path, info=None) -> dict | None:
        """Announce mutating effect; returns the fault to apply (or None)."""
        if not self.enabled:
            return None
        s = self.sched
        if s is not None and s.active and not s.aborting:
            s.yield_point("fs." + kind)
        k = len(self.effects)
        rel = self.rel(path) if path is not None else ""
        if self.on_boundary is not None:
            self.on_boundary(k, kind, rel)
        nth = self.kind_counts.get(kind, 0)
        self.kind_counts[kind] = nth + 1
        self.effects.append((k, kind, rel, self._thread_idx()))
        if s is not None and s.active:
            s.log("fs", kind, rel, self._thread_idx())
        for f in self.faults:
            if f.get("done"):
                continue
            hit = False
            if "at" in f:
                hit = f["at"] == k
            elif "kind" in f:
                hit = f["kind"] == kind and f.get("nth", 0) == nth
            if hit and kind in FAULTABLE:
                f["done"] = True
                rec = {"k": k, "kind": kind, "nth": nth, "errno": f.get("errno", "EIO"), "mode": f.get("mode", "raise")}
                self.fired.append(rec)
                return rec
        return None

    def read_event(self, kind: str, path, extra=None) -> None:
        if not self.enabled:
            return
        self.reads.append((kind, self.rel(path), extra))

    def read_fault(self, kind: str, path) -> None:
        """Raise the planned transient OSError for the nth read-side call of this kind, if any."""
        if not self.enabled:
            return
        nth = self.read_kind_counts.get(kind, 0)
        self.read_kind_counts[kind] = nth + 1
        for f in self.read_faults:
            if not f.get("done") and f["kind"] == kind and f.get("nth", 0) == nth:
                f["done"] = True
                self.fired.append({"k": -1, "kind": kind, "nth": nth, "errno": f.get("errno", "EIO"), "mode": "raise"})
                raise FsSeam.oserror(f.get("errno", "EIO"), path)

    @staticmethod
    def oserror(name: str, path=None) -> OSError:
        code = getattr(_errno, name)
        return OSError(code, f"[injected] {_real_os.strerror(code)}", _real_os.fspath(path) if path is not None else None)


class SimFile:
    """Counting/faulting wrapper around a real (buffered) binary file opened for writing."""

    def __init__(self, seam: FsSeam, real, path) -> None:
        self._seam = seam
        self._real = real
        self._path = path
        self._closed = False

    # -- mutating
    def write(self, data) -> int:
        f = self._seam.effect("write", self._path, len(data))
        if f is not None:
            if f["mode"] == "short" and len(data) > 1:
                n = self._real.write(bytes(data)[: len(data) // 2])
                if isinstance(self._real, io.RawIOBase):
                    # an unbuffered file reports what write(2) reports: a short count and no error (file-size limit,
                    # nearly full disk); only a buffered file retries and eventually raises
                    self._seam.raw_short_writes += 1
                    return n
            raise FsSeam.oserror(f["errno"], self._path)
        return self._real.write(data)

    def truncate(self, size=None):
        f = self._seam.effect("truncate", self._path, size)
        if f is not None:
            raise FsSeam.oserror(f["errno"], self._path)
        return self._real.truncate(size)

    def flush(self) -> None:
        f = self._seam.effect("flush", self._path)
        if f is not None:
            raise FsSeam.oserror(f["errno"], self._path)
        self._real.flush()

    def close(self) -> None:
        if self._closed:
            return
        f = self._seam.effect("close", self._path)
        self._closed = True
        if f is not None:
            # the descriptor is released either way (as close(2) does); buffered data is lost
            with contextlib.suppress(Exception):
                self._real.raw.close()
            with contextlib.suppress(Exception):
                self._real.close()
            raise FsSeam.oserror(f["errno"], self._path)
        self._real.close()

    def fileno(self) -> int:
        if self._seam.hide_fileno:
            raise io.UnsupportedOperation("fileno")
        self._seam.effect("fdwrite", self._path)
        return self._real.fileno()

    # -- non mutating
    def seek(self, *a):
        return self._real.seek(*a)

    def tell(self):
        return self._real.tell()

    def read(self, *a):
        return self._real.read(*a)

    def readinto(self, b):
        return self._real.readinto(b)

    @property
    def closed(self) -> bool:
        return self._closed

    @property
    def name(self):
        return self._real.name

    @property
    def mode(self):
        return self._real.mode

    def writable(self) -> bool:
        return True

    def readable(self) -> bool:
        return self._real.readable()

    def seekable(self) -> bool:
        return True

    def __enter__(self):
        return self

    def __exit__(self, *exc) -> None:
        self.close()

    def __del__(self):  # pragma: no cover - leak guard
        with contextlib.suppress(Exception):
            if not self._closed:
                self._real.close()


class ReadFile:
    """Thin wrapper around a real binary file opened for reading: records byte reads by inode."""

    def __init__(self, seam: FsSeam, real, path, ino) -> None:
        self._seam = seam
        self._real = real
        self._path = path
        self._ino = ino

    def read(self, *a):
        self._seam.read_fault("read", self._path)
        data = self._real.read(*a)
        if data:
            self._seam.read_event("read", self._path, self._ino)
        return data

    def readinto(self, b):
        self._seam.read_fault("read", self._path)
        n = self._real.readinto(b)
        if n:
            self._seam.read_event("read", self._path, self._ino)
        return n

    def __getattr__(self, name):
        return getattr(self._real, name)

    def __enter__(self):
        return self

    def __exit__(self, *exc):
        self._real.close()

    def __iter__(self):
        return iter(self._real)


def make_open(seam: FsSeam):
    real_open = builtins.open

    def sim_open(file, mode="r", *args, **kwargs):
        writing = any(c in mode for c in "wax+")
        if not seam.enabled:
            return real_open(file, mode, *args, **kwargs)
        if writing:
            f = seam.effect("open_w", file, mode)
            if f is not None:
                raise FsSeam.oserror(f["errno"], file)
            real = real_open(file, mode, *args, **kwargs)
            if "b" not in mode:
                return real
            return SimFile(seam, real, file)
        seam.read_fault("open_r", file)
        real = real_open(file, mode, *args, **kwargs)
        ino = None
        try:
            st = _real_os.fstat(real.fileno())
            ino = (st.st_dev, st.st_ino)
        except Exception:  # noqa: BLE001
            pass
        seam.read_event("open_r", file, ino)
        if seam.track_reads and "b" in mode:
            return ReadFile(seam, real, file, ino)
        return real

    return sim_open


class _PathProxy:
    def __init__(self, seam: FsSeam) -> None:
        self._seam = seam

    def __getattr__(self, name):
        return getattr(_real_os.path, name)

    def exists(self, p):
        self._seam.read_event("exists", p)
        return _real_os.path.exists(p)

    def samefile(self, a, b):
        self._seam.read_event("samefile", a)
        self._seam.read_fault("samefile", a)
        return _real_os.path.samefile(a, b)

    def islink(self, p):
        self._seam.read_event("islink", p)
        return _real_os.path.islink(p)

    def realpath(self, p, **kw):
        self._seam.read_event("realpath", p)
        return _real_os.path.realpath(p, **kw)


class OsProxy:
    """Stands in for the ``os`` module inside the modules under test."""

    def __init__(self, seam: FsSeam) -> None:
        self._seam = seam
        self.path = _PathProxy(seam)

    def __getattr__(self, name):
        if name == "copy_file_range":
            if self._seam.hide_copy_file_range or not hasattr(_real_os, "copy_file_range"):
                raise AttributeError(name)
            return self._copy_file_range
        return getattr(_real_os, name)

    def replace(self, src, dst, **kw):
        f = self._seam.effect("replace", dst)
        if f is not None:
            raise FsSeam.oserror(f["errno"], dst)
        return _real_os.replace(src, dst, **kw)

    def rename(self, src, dst, **kw):
        f = self._seam.effect("replace", dst)
        if f is not None:
            raise FsSeam.oserror(f["errno"], dst)
        return _real_os.rename(src, dst, **kw)

    def remove(self, p, **kw):
        self._seam.effect("remove", p)
        return _real_os.remove(p, **kw)

    unlink = remove

    def rmdir(self, p, **kw):
        self._seam.effect("rmdir", p)
        return _real_os.rmdir(p, **kw)

    def stat(self, p, **kw):
        self._seam.read_event("stat", p)
        self._seam.read_fault("stat", p)
        return _real_os.stat(p, **kw)

    def lstat(self, p, **kw):
        self._seam.read_event("lstat", p)
        self._seam.read_fault("lstat", p)
        return _real_os.lstat(p, **kw)

    def _copy_file_range(self, src, dst, count, offset_src=None, offset_dst=None):
        try:
            st = _real_os.fstat(src)
            self._seam.read_event("copy_file_range_src", f"fd:{src}", (st.st_dev, st.st_ino))
        except Exception:  # noqa: BLE001
            self._seam.read_event("copy_file_range_src", f"fd:{src}", None)
        f = self._seam.effect("copy_file_range", None, count)
        if f is not None:
            if f["mode"] == "short" and count > 1:
                return _real_os.copy_file_range(src, dst, max(1, count // 2), offset_src=offset_src, offset_dst=offset_dst)
            raise FsSeam.oserror(f["errno"])
        cap = self._seam.cfr_cap
        if cap is not None and count > cap:
            # at least 1/48 of what was asked for, so that a large tensor still needs only some hundred calls
            count = max(cap, -(-count // 48))
            self._seam.cfr_capped_calls += 1
        return _real_os.copy_file_range(src, dst, count, offset_src=offset_src, offset_dst=offset_dst)


def make_shutil(seam: FsSeam):
    def copymode(src, dst, **kw):
        f = seam.effect("copymode", dst)
        if f is not None:
            raise FsSeam.oserror(f["errno"], dst)
        return _real_shutil.copymode(src, dst, **kw)

    ns = types.SimpleNamespace(**{k: getattr(_real_shutil, k) for k in dir(_real_shutil) if not k.startswith("__")})
    ns.copymode = copymode
    return ns


def make_tempfile(seam: FsSeam):
    def mkdtemp(suffix=None, prefix=None, dir=None):
        f = seam.effect("mkdtemp", dir if dir is not None else ".")
        if f is not None:
            raise FsSeam.oserror(f["errno"], dir)
        base = dir if dir is not None else _real_tempfile.gettempdir()
        while True:
            name = f"{prefix or 'tmp'}sim{seam._mk}{suffix or ''}"
            seam._mk += 1
            p = _real_os.path.join(base, name)
            try:
                _real_os.mkdir(p, 0o700)
                # as the real function does since Python 3.12: the LEXICALLY normalised absolute spelling is returned
                # (which names another directory when `dir` has a `..` after a symlink)
                return _real_os.path.abspath(p) if sys.version_info >= (3, 12) else p
            except FileExistsError:
                continue

    ns = types.SimpleNamespace(**{k: getattr(_real_tempfile, k) for k in dir(_real_tempfile) if not k.startswith("__")})
    ns.mkdtemp = mkdtemp
    return ns


class MmapProxy:
    def __init__(self, seam: FsSeam) -> None:
        self._seam = seam

    def __getattr__(self, name):
        return getattr(_real_mmap, name)

    def mmap(self, fileno, length, *a, **kw):
        try:
            st = _real_os.fstat(fileno)
            self._seam.read_event("mmap", f"fd:{fileno}", (st.st_dev, st.st_ino))
        except Exception:  # noqa: BLE001
            self._seam.read_event("mmap", f"fd:{fileno}", None)
        self._seam.read_fault("mmap", None)
        return _real_mmap.mmap(fileno, length, *a, **kw)


class OnnxProxy:
    def __init__(self, seam: FsSeam, real_onnx) -> None:
        self._seam = seam
        self._real = real_onnx

    def __getattr__(self, name):
        return getattr(self._real, name)

    def save(self, proto, f, *a, **kw):
        flt = self._seam.effect("onnx.save", f)
        if flt is not None:
            raise FsSeam.oserror(flt["errno"], f)
        return self._real.save(proto, f, *a, **kw)

    def load(self, f, *a, **kw):
        self._seam.read_event("onnx.load", f)
        return self._real.load(f, *a, **kw)


class Rebind:
    """Context manager that rebinds module-global names and restores them.

    Also implements the seam liveness probe: a name that the module no longer
    resolves through its globals (e.g. ``from threading import Lock``) is
    detected by :meth:`require`.
    """

    _MISSING = object()

    def __init__(self) -> None:
        self._saved: list[tuple] = []

    def set(self, module, name: str, value) -> None:
        old = module.__dict__.get(name, self._MISSING)
        self._saved.append((module, name, old))
        setattr(module, name, value)

    def require(self, module, name: str, optional: bool = False) -> bool:
        """True if the module-global can be rebound.  With ``optional``: False if the module does not use that
        library module AT ALL any more (nothing to interpose) - but still SeamLost when it reaches it another way
        (an alias of the module object, a from-import of one of its functions), which would bypass the seam."""
        if name in module.__dict__:
            return True
        if optional:
            real = sys.modules.get(name)
            for k, v in list(module.__dict__.items()):
                if real is not None and v is real:
                    raise SeamLost(f"{module.__name__} reaches '{name}' under the alias '{k}'")
                if callable(v) and getattr(v, "__module__", None) == name:
                    raise SeamLost(f"{module.__name__} imports '{k}' from '{name}' directly")
            return False
        raise SeamLost(f"{module.__name__} no longer has a module-global '{name}' to rebind")

    def __enter__(self):
        return self

    def __exit__(self, *exc) -> None:
        for module, name, old in reversed(self._saved):
            if old is self._MISSING:
                with contextlib.suppress(AttributeError):
                    delattr(module, name)
            else:
                setattr(module, name, old)
        self._saved.clear()


def install_fs(rb: Rebind, seam: FsSeam, *, external_data=True, core=True, io_mod=True, safetensors=True) -> None:
    """Rebind the FS names in the onnx_ir modules."""
    import onnx_ir._core as _core
    import onnx_ir._io as _io
    import onnx_ir.external_data as _ed

    osp = OsProxy(seam)
    sim_open = make_open(seam)
    if external_data:
        rb.require(_ed, "os")
        rb.set(_ed, "os", osp)
        if rb.require(_ed, "shutil", optional=True):
            rb.set(_ed, "shutil", make_shutil(seam))
        if rb.require(_ed, "tempfile", optional=True):
            rb.set(_ed, "tempfile", make_tempfile(seam))
        rb.set(_ed, "open", sim_open)
    if core:
        for n in ("os", "mmap"):
            rb.require(_core, n)
        rb.set(_core, "os", osp)
        rb.set(_core, "mmap", MmapProxy(seam))
        rb.set(_core, "open", sim_open)
    if io_mod:
        rb.require(_io, "os")
        rb.require(_io, "onnx")
        rb.set(_io, "os", osp)
        rb.set(_io, "onnx", OnnxProxy(seam, _io.onnx))
    if safetensors:
        try:
            import onnx_ir._safetensors as _st
        except Exception:  # noqa: BLE001
            _st = None
        if _st is not None and "os" in _st.__dict__:
            rb.set(_st, "os", osp)
            rb.set(_st, "open", sim_open)


def fresh_read(path: str) -> bytes | None:
    """What a fresh descriptor reads right now (None if the file does not exist)."""
    try:
        with builtins.open(path, "rb") as f:
            return f.read()
    except FileNotFoundError:
        return None
    except IsADirectoryError:
        return None


def listing(root: str) -> list[str]:
    """Sorted recursive listing (relative paths; directories end with '/')."""
    out = []
    for d, dirs, files in _real_os.walk(root):
        dirs.sort()
        r = _real_os.path.relpath(d, root)
        for x in sorted(dirs):
            out.append(_real_os.path.normpath(_real_os.path.join(r, x)) + "/")
        for x in sorted(files):
            out.append(_real_os.path.normpath(_real_os.path.join(r, x)))
    out.sort()
    return out


_ = sys  # keep import for debugging hooks
