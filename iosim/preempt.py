"""Bytecode-level pre-emption through sys.monitoring INSTRUCTION events.

Enabled locally on the code objects of the modules under test only; the
callback runs in the executing thread and may hand the baton away.
"""

from __future__ import annotations

import sys
import types

TOOL_ID = 4
_mon = sys.monitoring
_state = {"sched": None, "p": 0.0, "rng": None, "count": 0, "points": None, "fired": 0, "first_p": 0.0, "seen": set()}
_codes: list = []
_registered = False


def _code_objects(module) -> list:
    out = []
    seen = set()

    def walk(co):
        if id(co) in seen:
            return
        seen.add(id(co))
        out.append(co)
        for c in co.co_consts:
            if isinstance(c, types.CodeType):
                walk(c)

    for v in list(module.__dict__.values()):
        if isinstance(v, types.FunctionType) and v.__module__ == module.__name__:
            walk(v.__code__)
        elif isinstance(v, type) and v.__module__ == module.__name__:
            for a in v.__dict__.values():
                f = a
                if isinstance(a, (staticmethod, classmethod)):
                    f = a.__func__
                if isinstance(a, property):
                    for g in (a.fget, a.fset, a.fdel):
                        if g is not None:
                            walk(g.__code__)
                elif isinstance(getattr(a, "func", None), types.FunctionType):
                    walk(a.func.__code__)  # functools.cached_property and the like
                elif isinstance(f, types.FunctionType):
                    walk(f.__code__)
    return out


def _cb(code, offset):
    s = _state["sched"]
    if s is None or not s.active or s.aborting:
        return None
    if not s.is_current_thread():
        return None
    _state["count"] += 1
    pts = _state["points"]
    if pts is not None:
        if _state["count"] in pts:
            _state["fired"] += 1
            s.yield_point("preempt")
    elif _state["rng"].random() < _state["p"]:
        _state["fired"] += 1
        s.yield_point("preempt")
    elif _state["first_p"]:
        # the first time a thread enters a function: where check-then-act races on lazily created state live
        me = s.me()
        key = (me.idx if me is not None else -1, id(code))
        if key not in _state["seen"]:
            _state["seen"].add(key)
            if _state["rng"].random() < _state["first_p"]:
                _state["fired"] += 1
                s.yield_point("preempt-first-visit")
    return None


def register(modules) -> int:
    global _registered
    if not _registered:
        _mon.use_tool_id(TOOL_ID, "verif-preempt")
        _mon.register_callback(TOOL_ID, _mon.events.INSTRUCTION, _cb)
        _registered = True
        for m in modules:
            _codes.extend(_code_objects(m))
    return len(_codes)


def enable(sched, *, p: float = 0.0, rng=None, points=None, first_p: float = 0.0) -> None:
    _state.update(sched=sched, p=p, rng=rng, count=0, points=set(points) if points is not None else None, fired=0, first_p=first_p, seen=set())
    for co in _codes:
        _mon.set_local_events(TOOL_ID, co, _mon.events.INSTRUCTION)


def disable() -> tuple[int, int]:
    for co in _codes:
        _mon.set_local_events(TOOL_ID, co, 0)
    r = (_state["count"], _state["fired"])
    _state.update(sched=None, rng=None, points=None)
    return r
