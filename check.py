#!/venv/bin/python
"""Entry point of every registered check.

    check.py <id> [--tier quick|thorough] [--seed N] [--replay file]

Re-executes itself with PYTHONHASHSEED=0 so that one seed is one run.
"""

from __future__ import annotations

import argparse
import os
import sys

VERIF = os.path.dirname(os.path.abspath(__file__))
MODULES = {
    "C01": "irsim.c01_c06",
    "C06": "irsim.c01_c06",
    "C03": "irsim.c03",
    "C07": "iosim.c07",
    "C08": "iosim.c08",
    "C09": "iosim.c09",
    "C10": "iosim.c10",
    "C11": "irsim.c11",
    "C13": "irsim.c13",
    "C14": "irsim.c14",
    "C15": "irsim.c15",
    "C17": "iosim.c17",
    "C19": "irsim.c19",
    "C20": "irsim.c20",
}


def main() -> int:
    ap = argparse.ArgumentParser()
    ap.add_argument("property")
    ap.add_argument("--tier", default=os.environ.get("VERIF_TIER", "quick"), choices=["quick", "thorough"])
    ap.add_argument("--seed", type=int, default=int(os.environ.get("VERIF_SEED", "0")))
    ap.add_argument("--replay")
    ap.add_argument("--quiet", action="store_true")
    args = ap.parse_args()
    if os.environ.get("PYTHONHASHSEED") != "0" and not os.environ.get("VERIF_NO_REEXEC"):
        env = dict(os.environ)
        env["PYTHONHASHSEED"] = "0"
        os.execve(sys.executable, [sys.executable, os.path.abspath(__file__), *sys.argv[1:]], env)
    sys.path.insert(0, VERIF)
    os.chdir(VERIF)
    repo_src = os.environ.get("VERIF_REPO_SRC")
    if repo_src:
        sys.path.insert(0, repo_src)
    import onnx_ir

    expected = os.path.realpath(repo_src or "/repo/src")
    if not os.path.realpath(onnx_ir.__file__).startswith(expected):
        print(f"HARNESS-ERROR onnx_ir imported from {onnx_ir.__file__}, expected under {expected}")
        return 2
    from simcore import runner

    prop = args.property.upper()
    if prop not in MODULES:
        print(f"unknown property {prop}")
        return 2
    os.environ["VERIF_PROPERTY"] = prop
    if args.replay:
        return runner.main_replay(MODULES[prop], args.replay, quiet=args.quiet)
    return runner.main_check(MODULES[prop], args)


if __name__ == "__main__":
    sys.exit(main())
