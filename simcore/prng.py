"""One integer decides everything.

``H`` hashes a tuple of printable parts to a 64-bit integer.  A run owns a
``Streams`` object: named, independent ``random.Random`` sub-streams so that
adding a draw to one stream never shifts another.  Nothing here reads a clock.
"""

from __future__ import annotations

import hashlib
import random


def H(*parts) -> int:
    h = hashlib.sha256()
    for p in parts:
        h.update(repr(p).encode())
        h.update(b"\x00")
    return int.from_bytes(h.digest()[:8], "big")


class Streams:
    def __init__(self, run_seed: int) -> None:
        self.run_seed = run_seed
        self._streams: dict[str, random.Random] = {}

    def rng(self, label: str) -> random.Random:
        r = self._streams.get(label)
        if r is None:
            r = self._streams[label] = random.Random(H(self.run_seed, label))
        return r


def digest(obj) -> str:
    """Stable short digest of a JSON-like structure (lists/tuples/dicts/scalars)."""
    return hashlib.sha1(repr(obj).encode()).hexdigest()[:16]
