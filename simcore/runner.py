"""Batch driver: fan seeds out over processes, aggregate, minimise, report.

Exit codes: 0 held (after printing KNOWN-FINDING lines), 1 VIOLATION,
2 harness error (never 0, never VIOLATION).
"""

from __future__ import annotations

import collections
import concurrent.futures as cf
import faulthandler
import importlib
import json
import multiprocessing as mp
import os
import re
import subprocess
import sys
import time
import traceback

from simcore import evidence as _evidence
from simcore import findings as _findings
from simcore.prng import H

VERIF = os.path.dirname(os.path.dirname(os.path.abspath(__file__)))
MAX_KEEP_DISTINCT = 2_000_000


def _merge_counter(dst: dict, src: dict) -> None:
    for k, v in src.items():
        dst[k] = dst.get(k, 0) + v


def run_case_of(mod, case: dict, cap: float = 600.0) -> dict:
    """mod.run_case(case); for modules marked HERMETIC, in a forked child, so that state which the code under
    test keeps at module level cannot travel from one run to the next (a run is a function of its case alone,
    exactly what a replay in a fresh interpreter executes)."""
    if not getattr(mod, "HERMETIC", False):
        return mod.run_case(case)
    import pickle

    r, w = os.pipe()
    pid = os.fork()
    if pid == 0:
        code = 0
        try:
            os.close(r)
            try:
                res = mod.run_case(case)
                try:
                    pickle.dumps(res)
                except Exception:  # noqa: BLE001
                    res = json.loads(json.dumps(res, default=str))
            except BaseException as e:  # noqa: BLE001
                res = {"violation": None, "error": f"{type(e).__name__}: {e} / {traceback.format_exc()[-1500:]}", "stats": {}, "steps": 0, "distinct": [], "states": [], "case": case}
            with os.fdopen(w, "wb") as f:
                pickle.dump(res, f)
        except BaseException:  # noqa: BLE001
            code = 3
        finally:
            os._exit(code)
    os.close(w)
    with os.fdopen(r, "rb") as f:
        data = f.read()
    _, status = os.waitpid(pid, 0)
    if not data:
        return {"violation": None, "error": f"hermetic child died (status {status})", "stats": {}, "steps": 0, "distinct": [], "states": [], "case": case}
    return pickle.loads(data)


def _work(mod_name: str, tier: str, base_seed: int, start: int, count: int, deadline: float, per_run_cap: float):
    """Runs in a forked worker process."""
    faulthandler.enable()
    mod = importlib.import_module(mod_name)
    known = _findings.load()

    def keep(i, run_seed, case, v):
        key = mod.finding_key(case, v) if hasattr(mod, "finding_key") else str(v.get("clause", ""))
        hit = _findings.match(known, mod.PROPERTY, key)
        if hit is not None:
            out["known"][hit["id"]] = out["known"].get(hit["id"], 0) + 1
        elif len(out["violations"]) < 40:
            out["violations"].append({"index": i, "run_seed": run_seed, "case": case, "violation": v})

    out = {
        "known": {},
        "runs": 0,
        "stats": {},
        "distinct": set(),
        "schedules": set(),
        "states": set(),
        "violations": [],
        "errors": [],
        "steps": 0,
        "samples": [],
        "first": start,
        "cut": False,
    }
    for i in range(start, start + count):
        if time.monotonic() > deadline:
            out["cut"] = True
            break
        run_seed = H(base_seed, mod.PROPERTY, i)
        faulthandler.dump_traceback_later(per_run_cap, exit=True)
        try:
            case = mod.gen_case(run_seed, tier, i)
            res = run_case_of(mod, case, per_run_cap)
        except BaseException as e:  # noqa: BLE001
            faulthandler.cancel_dump_traceback_later()
            out["errors"].append({"index": i, "run_seed": run_seed, "error": f"{type(e).__name__}: {e}", "tb": traceback.format_exc()[-3000:]})
            if len(out["errors"]) > 3:
                break
            continue
        faulthandler.cancel_dump_traceback_later()
        out["runs"] += 1
        out["steps"] += res.get("steps", 0)
        _merge_counter(out["stats"], res.get("stats", {}))
        if len(out["distinct"]) < MAX_KEEP_DISTINCT:
            for k in res.get("distinct", ()):
                out["distinct"].add(k)
        if res.get("schedule_digest") is not None:
            out["schedules"].add(res["schedule_digest"])
        for st in res.get("states", ()):
            out["states"].add(st)
        if res.get("error"):
            out["errors"].append({"index": i, "run_seed": run_seed, "error": res["error"]})
            if len(out["errors"]) > 3:
                break
        if res.get("violations"):
            for v in res["violations"]:
                keep(i, run_seed, res.get("case", case), v)
        elif res.get("violation"):
            keep(i, run_seed, res.get("case", case), res["violation"])
        if len(out["samples"]) < 2 and res.get("sample") is not None:
            out["samples"].append(res["sample"])
    return out


def run_batch(mod_name: str, tier: str, base_seed: int, *, wall_budget: float, workers: int, chunk: int, max_runs: int | None, per_run_cap: float = 120.0):
    ctx = mp.get_context("fork")
    agg = {"known": {}, "runs": 0, "stats": {}, "distinct": set(), "schedules": set(), "states": set(), "violations": [], "errors": [], "steps": 0, "samples": [], "cut_by_wall_cap": False}
    samples_by_start: dict[int, list] = {}
    t0 = time.monotonic()
    deadline = t0 + wall_budget
    next_start = 0
    pending = set()
    with cf.ProcessPoolExecutor(max_workers=workers, mp_context=ctx) as ex:
        def submit():
            nonlocal next_start
            if max_runs is not None and next_start >= max_runs:
                return False
            n = chunk if max_runs is None else min(chunk, max_runs - next_start)
            pending.add(ex.submit(_work, mod_name, tier, base_seed, next_start, n, deadline, per_run_cap))
            next_start += n
            return True

        for _ in range(workers):
            if not submit():
                break
        broken = None
        while pending:
            done, _ = cf.wait(pending, return_when=cf.FIRST_COMPLETED, timeout=wall_budget + per_run_cap + 60)
            if not done:
                broken = "worker pool made no progress (watchdog)"
                break
            for fut in done:
                pending.discard(fut)
                try:
                    r = fut.result()
                except Exception as e:  # noqa: BLE001 - BrokenProcessPool etc.
                    broken = f"worker died: {type(e).__name__}: {e}"
                    continue
                agg["runs"] += r["runs"]
                agg["steps"] += r["steps"]
                _merge_counter(agg["stats"], r["stats"])
                _merge_counter(agg["known"], r["known"])
                agg["distinct"] |= r["distinct"]
                agg["schedules"] |= r["schedules"]
                agg["states"] |= r["states"]
                agg["violations"].extend(r["violations"])
                agg["errors"].extend(r["errors"])
                if r["samples"]:
                    samples_by_start[r["first"]] = r["samples"]
                if r.get("cut"):
                    agg["cut_by_wall_cap"] = True
                stop = len(agg["violations"]) >= 40 or len(agg["errors"]) > 3 or broken
                if not stop:
                    if time.monotonic() < deadline:
                        submit()
                    elif max_runs is not None and next_start < max_runs:
                        agg["cut_by_wall_cap"] = True
            if broken:
                break
        if broken:
            agg["errors"].append({"index": -1, "run_seed": -1, "error": broken})
            for fut in pending:
                fut.cancel()
    # samples of the lowest run indices, whatever order the workers finished in
    for st in sorted(samples_by_start):
        if len(agg["samples"]) >= 5:
            break
        agg["samples"].extend(samples_by_start[st][: 5 - len(agg["samples"])])
    agg["wall_s"] = time.monotonic() - t0
    agg["max_runs"] = max_runs
    return agg


def replay_in_fresh_interpreter(prop: str, path: str, timeout: float = 300.0) -> tuple[int, str]:
    env = dict(os.environ)
    env["PYTHONHASHSEED"] = "0"
    env["VERIF_NO_REEXEC"] = "1"
    p = subprocess.run([sys.executable, os.path.join(VERIF, "check.py"), prop, "--replay", path, "--quiet"], capture_output=True, text=True, timeout=timeout, env=env)
    return p.returncode, p.stdout + p.stderr


def vkey(v: dict) -> str:
    return str(v.get("key") or v.get("clause"))


def same_violation(a: dict | None, b: dict | None) -> bool:
    return a is not None and b is not None and vkey(a) == vkey(b)


def minimise(mod, case: dict, violation: dict, budget: int = 300, wall: float = 120.0) -> tuple[dict, dict, int]:
    """Greedy shrinking with the module's candidate generator."""
    t0 = time.monotonic()
    tries = 0
    best, bestv = case, violation
    progress = True
    while progress and tries < budget and time.monotonic() - t0 < wall:
        progress = False
        for cand in mod.shrink_candidates(best, bestv):
            if tries >= budget or time.monotonic() - t0 > wall:
                break
            tries += 1
            try:
                res = run_case_of(mod, cand)
            except BaseException:  # noqa: BLE001
                continue
            v = res.get("violation") or (res.get("violations") or [None])[0]
            if res.get("violations"):
                for vv in res["violations"]:
                    if same_violation(vv, bestv):
                        v = vv
                        break
            if same_violation(v, bestv):
                best, bestv = res.get("case", cand), v
                progress = True
                break
    return best, bestv, tries


def write_replay(prop: str, case: dict, violation: dict, run_seed: int, tag: str) -> str:
    d = os.path.join(VERIF, "replays", prop)
    os.makedirs(d, exist_ok=True)
    path = os.path.join(d, f"{tag}.json")
    with open(path, "w") as f:
        json.dump({"property": prop, "run_seed": run_seed, "violation": violation, "case": case, "python_optimize": int(sys.flags.optimize)}, f, indent=1, sort_keys=True, default=str)
    return path


def main_check(mod_name: str, args) -> int:
    mod = importlib.import_module(mod_name)
    prop = mod.PROPERTY
    tier = args.tier
    base_seed = args.seed
    print(f"VERIF_SEED={base_seed} property={prop} tier={tier}", flush=True)
    cfg = mod.TIERS[tier]
    workers = int(os.environ.get("VERIF_WORKERS", cfg.get("workers", 16)))
    wall = float(os.environ.get("VERIF_WALL", cfg["wall"]))
    max_runs = cfg.get("max_runs")
    if os.environ.get("VERIF_MAX_RUNS"):
        max_runs = int(os.environ["VERIF_MAX_RUNS"])
    t0 = time.monotonic()
    pre = {}
    if hasattr(mod, "pre_batch"):
        pre = mod.pre_batch(tier, base_seed) or {}
        if pre.get("error"):
            print(f"HARNESS-ERROR property={prop} {pre['error']}")
            return 2
    agg = run_batch(mod_name, tier, base_seed, wall_budget=wall, workers=workers, chunk=cfg.get("chunk", 50), max_runs=max_runs, per_run_cap=cfg.get("per_run_cap", 120.0))
    if pre.get("violations"):
        agg["violations"] = list(pre["violations"]) + agg["violations"]
    if pre.get("stats"):
        _merge_counter(agg["stats"], pre["stats"])
    agg["pre"] = pre
    known = _findings.load()
    exit_code = 0
    reported = []
    known_hits: dict[str, dict] = {}
    unknown = []
    by_id = {k["id"]: k for k in known.get("known", [])}
    for kid in agg["known"]:
        known_hits[kid] = by_id[kid]
    for v in sorted(agg["violations"], key=lambda x: x["index"]):
        key = mod.finding_key(v["case"], v["violation"]) if hasattr(mod, "finding_key") else str(v["violation"].get("clause", ""))
        hit = _findings.match(known, prop, key)
        if hit is not None:
            known_hits.setdefault(hit["id"], hit)
        else:
            unknown.append(v)
    for kid, hit in known_hits.items():
        print(f"KNOWN-FINDING: property={prop} {hit['what']} [{agg['known'].get(kid, 0)} occurrence(s) in this batch]")
    n_viol = 0
    if unknown:
        seen_clauses = set()
        for v in unknown:
            clause = vkey(v["violation"])
            if clause in seen_clauses:
                continue
            seen_clauses.add(clause)
            if len(seen_clauses) > 3:
                break
            case, viol, tries = minimise(mod, v["case"], v["violation"], budget=cfg.get("shrink_budget", 300), wall=cfg.get("shrink_wall", 90.0))
            tag = f"{tier}-seed{base_seed}-run{v['index']}-" + "".join(ch if ch.isalnum() or ch in "-_=" else "_" for ch in str(clause))[:60]
            path = write_replay(prop, case, viol, v["run_seed"], tag)
            rc, out = replay_in_fresh_interpreter(prop, path)
            if rc != 1:
                # fall back to the un-minimised case
                path = write_replay(prop, v["case"], v["violation"], v["run_seed"], tag + "-full")
                rc2, out2 = replay_in_fresh_interpreter(prop, path)
                if rc2 != 1:
                    agg["errors"].append({"index": v["index"], "run_seed": v["run_seed"], "error": f"violation {clause} did not reproduce in a fresh interpreter (rc={rc2}): {out2[-500:]}"})
                    continue
            n_viol += 1
            reported.append({"clause": clause, "replay": path, "detail": viol.get("detail"), "shrink_tries": tries})
            print(f"VIOLATION property={prop} replay={path}")
            print(f"  clause={clause} detail={viol.get('detail')}")
        if n_viol:
            exit_code = 1
    if agg["errors"]:
        for e in agg["errors"][:5]:
            print(f"HARNESS-ERROR property={prop} run={e['index']} run_seed={e['run_seed']} {e['error']}")
            if e.get("tb"):
                print(e["tb"])
        if exit_code == 0:
            exit_code = 2
    # ---- second batch with assert statements stripped (python -O): the same seeds, a configuration of the interpreter
    opt = None
    if cfg.get("optimize_wall") and not os.environ.get("VERIF_SUBBATCH") and not sys.flags.optimize:
        env = dict(os.environ, PYTHONOPTIMIZE="1", VERIF_SUBBATCH="1", VERIF_WALL=str(cfg["optimize_wall"]), PYTHONHASHSEED="0", VERIF_NO_REEXEC="1")
        if cfg.get("optimize_runs"):
            # work-bounded like the main batch: the first optimize_runs seeds of it, optimize_wall being only a cap
            env["VERIF_MAX_RUNS"] = str(cfg["optimize_runs"])
        else:
            env.pop("VERIF_MAX_RUNS", None)
        try:
            sp = subprocess.run([sys.executable, os.path.join(VERIF, "check.py"), prop, "--tier", tier, "--seed", str(base_seed)], env=env, capture_output=True, text=True, timeout=float(cfg["optimize_wall"]) * 6 + 600)
            out_lines = (sp.stdout or "").splitlines()
            summ = [ln for ln in out_lines if ln.startswith(f"property={prop} tier=")]
            m_runs = re.search(r"runs=(\d+)", summ[-1]) if summ else None
            opt = {"python_flag": "-O (PYTHONOPTIMIZE=1)", "runs": int(m_runs.group(1)) if m_runs else 0, "exit": sp.returncode}
            if cfg.get("optimize_runs"):
                opt["bound"] = f"the first {cfg['optimize_runs']} seeds of the main batch (wall cap {cfg['optimize_wall']} s)"
            else:
                opt["wall_s"] = cfg["optimize_wall"]
            if sp.returncode == 1:
                for i_, ln in enumerate(out_lines):
                    if ln.startswith("VIOLATION "):
                        print(ln + "  [under python -O]")
                        if i_ + 1 < len(out_lines) and out_lines[i_ + 1].startswith("  clause="):
                            print(out_lines[i_ + 1])
                        n_viol += 1
                exit_code = 1
            elif sp.returncode != 0:
                agg["errors"].append({"index": -1, "run_seed": -1, "error": "the python -O batch failed: " + "\n".join(out_lines[-6:]) + (sp.stderr or "")[-600:]})
                print(f"HARNESS-ERROR property={prop} python -O batch: rc={sp.returncode} " + " | ".join(out_lines[-4:])[:600])
                if exit_code == 0:
                    exit_code = 2
        except subprocess.TimeoutExpired:
            agg["errors"].append({"index": -1, "run_seed": -1, "error": "the python -O batch timed out"})
            print(f"HARNESS-ERROR property={prop} python -O batch timed out")
            if exit_code == 0:
                exit_code = 2
    agg["optimize_batch"] = opt
    wall_s = time.monotonic() - t0
    try:
        ev = _evidence.build(mod, agg, tier=tier, seed=base_seed, wall_s=wall_s, n_viol=n_viol, reported=reported, known=list(known_hits.values()))
        if hasattr(mod, "check_reach") and exit_code == 0 and not os.environ.get("VERIF_SUBBATCH"):
            missing = mod.check_reach(agg, tier)
            if missing:
                print(f"HARNESS-ERROR property={prop} REACH-ZERO {missing}")
                exit_code = 2
        _evidence.write(prop, ev)
    except Exception as e:  # noqa: BLE001
        traceback.print_exc()
        print(f"HARNESS-ERROR property={prop} evidence: {e}")
        if exit_code == 0:
            exit_code = 2
    rate = agg["runs"] / max(agg["wall_s"], 1e-9)
    print(f"property={prop} tier={tier} runs={agg['runs']} distinct={len(agg['distinct'])} schedules={len(agg['schedules'])} steps={agg['steps']} wall={wall_s:.1f}s ({rate * 3600:.0f} runs/h) violations={n_viol} known={len(known_hits)} errors={len(agg['errors'])} exit={exit_code}")
    return exit_code


def main_replay(mod_name: str, path: str, quiet: bool = False) -> int:
    mod = importlib.import_module(mod_name)
    with open(path) as f:
        rp = json.load(f)
    if rp.get("python_optimize") and not sys.flags.optimize:
        # found with assert statements stripped (python -O): replay it the same way
        env = dict(os.environ, PYTHONOPTIMIZE=str(rp["python_optimize"]), PYTHONHASHSEED="0", VERIF_NO_REEXEC="1")
        p = subprocess.run([sys.executable, os.path.join(VERIF, "check.py"), mod.PROPERTY, "--replay", path] + (["--quiet"] if quiet else []), env=env, capture_output=True, text=True)
        sys.stdout.write(p.stdout)
        sys.stderr.write(p.stderr)
        return p.returncode
    res = mod.run_case(rp["case"])
    if res.get("error"):
        print(f"HARNESS-ERROR property={mod.PROPERTY} {res['error']}")
        return 2
    vs = res.get("violations") or ([res["violation"]] if res.get("violation") else [])
    want = rp.get("violation") or {}
    for v in vs:
        if not want or vkey(v) == vkey(want):
            print(f"VIOLATION property={mod.PROPERTY} replay={path}")
            if not quiet:
                print(json.dumps(v, indent=1, default=str)[:4000])
            return 1
    if vs:
        print(f"VIOLATION property={mod.PROPERTY} replay={path}")
        print(f"  note: different clause than recorded: {vs[0].get('clause')} vs {want.get('clause')}")
        return 1
    print(f"replay of {path}: property held (no violation reproduced)")
    return 0


_ = collections
