"""Evidence files: written by every check run, validated against the schema."""

from __future__ import annotations

import json
import os

VERIF = os.path.dirname(os.path.dirname(os.path.abspath(__file__)))
SCHEMA = "/root/.vp/EVIDENCE.schema.json"


def build(mod, agg: dict, *, tier: str, seed: int, wall_s: float, n_viol: int, reported: list, known: list) -> dict:
    runs = agg["runs"]
    rate = runs / max(agg.get("wall_s", wall_s), 1e-9)
    stats = dict(sorted(agg["stats"].items()))
    cov = {
        "evaluations": max(runs, 0),
        "distinct_nontrivial": len(agg["distinct"]),
        "rule": mod.RULE,
        "samples": agg["samples"][:5] or ["(no sample recorded)"],
        "simulated_runs": runs,
        "runs_per_hour": round(rate * 3600),
        "seeds_per_hour": round(rate * 3600),
        "simulated_time": {"unit": "scheduler steps / operations (the repository has no clock or timer; see DESIGN.md section 0)", "total": agg["steps"]},
        "distinct_schedules": len(agg["schedules"]),
        "distinct_abstract_states": len(agg["states"]),
        "fault_and_reach_counters": stats,
        "real_vs_stub": mod.REAL_STUB,
        "violations_reported": reported,
        "known_findings_matched": [k["id"] for k in known],
        "harness_errors": len(agg["errors"]),
        "exhaustive": bool(getattr(mod, "EXHAUSTIVE", {}).get(tier, False)),
    }
    if agg.get("max_runs") is not None:
        # a work-bounded batch: the amount of work is a function of the seed, not of the speed of the machine
        cov["work_bound"] = {"max_runs": agg["max_runs"], "completed": runs >= agg["max_runs"] and not agg.get("cut_by_wall_cap"), "cut_by_wall_cap": bool(agg.get("cut_by_wall_cap"))}
    else:
        cov["work_bound"] = {"max_runs": None, "bounded_by": "wall budget"}
    if agg.get("optimize_batch"):
        cov["interpreter_configurations"] = ["default", agg["optimize_batch"]]
    if hasattr(mod, "evidence_extra"):
        cov.update(mod.evidence_extra(agg, tier) or {})
    return {
        "property_id": mod.PROPERTY,
        "tier": tier,
        "seed": seed,
        "level": mod.LEVEL,
        "coverage": cov,
        "assumptions": list(mod.ASSUMPTIONS),
        "wall_s": round(wall_s, 2),
        "violations": n_viol,
    }


def write(prop: str, ev: dict) -> str:
    d = os.path.join(VERIF, "evidence")
    if os.environ.get("VERIF_REPO_SRC") or os.environ.get("VERIF_SUBBATCH"):
        # a development run against a scratch copy of the repository (a seeded change, a mutant): its evidence does not
        # describe /repo and must never land in the committed evidence directory
        d = os.path.join("/dev/shm" if os.path.isdir("/dev/shm") else os.environ.get("TMPDIR", "/tmp"), "verif-evidence-scratch")
    os.makedirs(d, exist_ok=True)
    path = os.path.join(d, f"{prop}.json")
    try:
        import jsonschema

        with open(SCHEMA) as f:
            jsonschema.validate(ev, json.load(f))
    except ImportError:
        pass
    except FileNotFoundError:
        pass
    tmp = path + ".tmp"
    with open(tmp, "w") as f:
        json.dump(ev, f, indent=1, sort_keys=True, default=str)
    os.replace(tmp, path)
    return path
