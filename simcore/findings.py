"""Known findings: genuine defects recorded, never written at run time."""

from __future__ import annotations

import json
import os
import re

VERIF = os.path.dirname(os.path.dirname(os.path.abspath(__file__)))
PATH = os.path.join(VERIF, "known_findings.json")


def load() -> dict:
    try:
        with open(PATH) as f:
            return json.load(f)
    except FileNotFoundError:
        return {"known": [], "fixed": []}


def match(known: dict, prop: str, key: str) -> dict | None:
    """A finding matches when the property is the same and its key regex fully matches."""
    for k in known.get("known", []):
        if k["property"] != prop:
            continue
        if re.fullmatch(k["key"], key):
            return k
    return None
