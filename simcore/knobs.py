"""Interpreter-configuration knobs shared by the checks (each drawn from a stream of its own).

A configuration of the interpreter is part of the environment a run executes in, like the optimisation level
(`python -O` sub-batch of the runner): warnings escalated to errors (`python -W error`, the usual test-suite setting)
turn every `warnings.warn` of the code under test into a fault at that exact point.
"""

from __future__ import annotations

import contextlib
import warnings

from simcore.prng import Streams


def warnings_knob(run_seed: int, p: float = 0.2) -> bool:
    return Streams(run_seed).rng("warnings-knob").random() < p


@contextlib.contextmanager
def interpreter(case: dict, stats: dict | None = None):
    with warnings.catch_warnings():
        if case.get("warnings_error"):
            warnings.simplefilter("error")
            # (a ResourceWarning is issued from finalizers, where an exception is only printed: it would add noise, nothing else)
            warnings.simplefilter("ignore", ResourceWarning)
            if stats is not None:
                stats["cfg_warnings_as_errors"] = stats.get("cfg_warnings_as_errors", 0) + 1
        yield
